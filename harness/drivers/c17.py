"""C17 - resuming an interrupted batch completes every requested output (DESIGN.md section 4, C17).

Per configuration (input page ids, requested output kinds, crops per page, number of kills):
1. TLC model-checks spec/ParseFolder.tla (the REPAIRED tool) exhaustively: every kill point between two writes, every
   resume sequence; invariants AllOutputsAfterCleanRun / CleanExit / NeverRedoComplete / NeverSkipIncomplete, action
   property Monotone.  Four self-tests (one per Legacy flag) must each violate the named invariant.
2. The complete labelled state graph is dumped; EVERY path initial state -> terminal state is turned into a kill schedule
   and executed for real: user_scripts/parse_folder.py main() is forked on a temporary batch folder with a stub PageParser
   and killed (os._exit) right after the chosen write (harness/pf_common.py).
3. Every recorded history is validated by TLC against spec/ParseFolder_Trace.tla:
   Detailed=FALSE is the verdict (property-level acceptance); Detailed=TRUE (design conformance) only feeds MODEL-DRIFT.
4. Trace kind "fresh" (configuration with fresh=True, harness/pf_fresh.py): a batch of three realistic pages (the same region /
   line ids on every page, page-specific geometry and text, logits + multi-word transcriptions, every output kind) whose
   uninterrupted run and whose killed / resumed runs ALL descend from a new interpreter that has never handled a page - a killed
   process takes its memory with it, so nothing pero-ocr keeps at module level may leak from the reference run or from the harness
   (pf_common.warm()) into a resumed run.  Quick tier: sampled kill schedules (one to three kills, kill inside / at the end of each
   page, a run that finds nothing to do); thorough tier: every path of the TLC state graph with one kill.  Same property clauses,
   plus PRef of ParseFolder_Trace (the baseline is a complete, clean, reproducible uninterrupted run).
"""
import os
import re

from .. import pf_common as P
from .. import pf_fresh as F
from ..core import MachineryFailure, pmap

LEVEL = "fault_enumeration"
FLAGS = ["LegacyAlto", "LegacyStem", "LegacyOrder", "LegacyDiv"]
INVS = ["TypeOK", "AllOutputsAfterCleanRun", "CleanExit", "RunEndOK", "NeverRedoComplete", "NeverSkipIncomplete"]
ALL = ["xml", "render", "logits", "alto", "lines"]


def cfg(pages, kinds, nlines=2, crashes=2):
    return {"pages": list(pages), "kinds": [k for k in ALL if k in kinds], "nlines": nlines, "crashes": crashes}


def fresh_cfg(crashes=3):
    """the realistic batch of harness/pf_fresh.py: every process from a new interpreter (trace kind "fresh")"""
    c = cfg(["a", "b", "c"], ALL, nlines=3, crashes=crashes)
    c["fresh"] = True
    c["line_ids"] = ["r001-l%03d" % (i + 1) for i in range(c["nlines"])]
    return c


def fresh_schedules(c):
    """sampled kill schedules for the quick tier (k = killed right after the k-th write of that process, -1 = left to end)"""
    w = len(c["kinds"]) - ("lines" in c["kinds"]) + (c["nlines"] if "lines" in c["kinds"] else 0)      # writes per page
    return [[-1, -1],                        # uninterrupted, then a run that finds nothing to do
            [0, -1],                         # killed before the first write
            [w // 2, -1],                    # killed inside the first page: the resumed process does all pages again
            [w, -1],                         # killed between two pages: the resumed process starts with the second page
            [w + w // 2 + 1, -1],            # killed inside the second page
            [2 * w + w - 1, -1],             # killed before the last write of the last page: the resumed process does that page only
            [w // 2, w + 2, -1],             # two kills
            [w + 2, w - 2, w + 3, -1]]       # three kills, every page completed by another process


def line_ids(c):
    return c.get("line_ids") or [str(i + 1) for i in range(c["nlines"])]


def configs(tier):
    q = [cfg(["a", "b"], ALL),                              # every output kind
         cfg(["a.jpg.b", "a"], ["xml", "logits"]),          # id with an output-extension substring, processed first
         cfg(["a", "a.xml.b"], ["xml", "alto"]),            # ... processed second; kill between PAGE XML and ALTO
         cfg(["a", "a.b"], ["alto", "lines"]),              # id with a dot; kill between ALTO and the crops
         cfg(["a", "b"], ["render", "lines"], nlines=1),
         cfg(["a", "b"], ["render", "logits"]),             # the one pair written in the opposite order to the one consulted
         # three pages, one id a prefix of another: the order of the ids ('a' < 'a.b') differs from the order of the image
         # file names ('a.b.png' < 'a.png'), so a resume that pairs ids and images from two differently ordered lists shows
         cfg(["0", "a", "a.b"], ["xml", "logits"], crashes=1),
         cfg(["a", "b"], ["lines"])]                        # no single-file output: the open known finding
    if tier == "quick":
        return q
    t = list(q)
    import itertools
    for n in range(1, 6):
        for ks in itertools.combinations(ALL, n):
            c = cfg(["a", "a.logits.b"] if n % 2 else ["a.jpg", "b"], ks)
            if c not in t:
                t.append(c)
    t += [cfg(["a", "b", "a.xml.b"], ["xml", "alto", "lines"], crashes=3),
          cfg(["a.jpg.b", "a", "a.b"], ["xml", "render", "logits"], nlines=1, crashes=3),
          cfg(["a", "b", "c"], ALL, nlines=1, crashes=2),
          cfg(["a", "b", "c"], ["logits", "alto"], crashes=3),
          cfg(["a", "a.jpg"], ["render", "lines"], crashes=3),
          cfg(["a", "b"], ["lines"], nlines=3, crashes=3)]
    return t


def label(c):
    return "pages=%s kinds={%s} nlines=%d kills<=%d%s" % (",".join(P.order_of(c["pages"])), ",".join(c["kinds"]),
                                                         c["nlines"], c["crashes"],
                                                         " realistic-pages processes=new-interpreter" if c.get("fresh") else "")


def mc_module(name, base, c):
    from ..tlc import tla_value
    order = [P.tokens_of(p) for p in P.order_of(c["pages"])]
    lids = [P.tokens_of(x) for x in line_ids(c)]
    return "---- MODULE %s ----\nEXTENDS %s\nMCOrder == %s\nMCLineIds == %s\n====\n" % (name, base, tla_value(order), tla_value(lids))


def constants(c, legacy=(), crashes=None):
    k = {"Order": "<-MCOrder", "LineIds": "<-MCLineIds", "Kinds": set(c["kinds"]), "NLines": c["nlines"],
         "MaxCrashes": c["crashes"] if crashes is None else crashes}
    for f in FLAGS:
        k[f] = f in legacy
    return k


# ------------------------------------------------------------------ TLC state graph -> kill schedules
def schedules_from_dot(path):
    with open(path) as fh:
        text = fh.read()
    init = re.findall(r"^(-?\d+) \[label=.*style = filled\]", text, re.M)
    edges = {}
    for a, b, lab in re.findall(r'^(-?\d+) -> (-?\d+) \[label="(\w+)"', text, re.M):
        edges.setdefault(a, []).append((lab, b))
    if len(init) != 1 or not edges:
        raise MachineryFailure("cannot parse the TLC state graph %s" % path)
    out, n_edges = [], sum(len(v) for v in edges.values())
    stack = [(init[0], [], 0)]
    while stack:
        node, sched, nw = stack.pop()
        succ = edges.get(node, [])
        if not succ:
            out.append(sched)
            continue
        for lab, b in succ:
            if lab == "StartRun":
                stack.append((b, sched, 0))
            elif lab == "Write":
                stack.append((b, sched, nw + 1))
            elif lab == "Crash":
                stack.append((b, sched + [nw], 0))
            elif lab == "Finish":
                stack.append((b, sched + [-1], 0))
            else:
                raise MachineryFailure("unknown action label %s in the state graph" % lab)
    return sorted(out), n_edges


# ------------------------------------------------------------------ execution of the real tool
_RUN = {}


def _execute(item):
    idx, sched = item
    tr, _ = P.run_history(_RUN["root"], "h%d_%d" % (os.getpid(), idx), _RUN["cfg"]["pages"], _RUN["cfg"]["kinds"], sched,
                          reference=_RUN["ref"])
    return tr


def execute_fresh(ctx, c, scheds):
    """trace kind "fresh": the whole batch of histories is produced by ONE new interpreter (harness.pf_fresh) that forks the tool
    processes; nothing is run in (or forked from) this process."""
    try:
        return F.run_fresh(ctx.workdir, c["pages"], c["kinds"], c["nlines"], scheds, procs=6)
    except RuntimeError as ex:
        raise MachineryFailure(str(ex))


def execute(ctx, c, scheds):
    if c.get("fresh"):
        return execute_fresh(ctx, c, scheds)
    P.STUB["nlines"] = c["nlines"]
    P.STUB["parser_class"] = None
    root = os.path.join(ctx.workdir, "batch")
    os.makedirs(root, exist_ok=True)
    _, ref = P.run_history(root, "reference", c["pages"], c["kinds"], [-1])
    _RUN.update(root=root, cfg=c, ref=ref)
    return pmap(_execute, list(enumerate(scheds)), procs=6)


# ------------------------------------------------------------------ verdict
def clause(c, tr, progress):
    """label of the first property clause the rejected history breaks (for the signature and the message only: the
    verdict is TLC's).  progress = 100 * (index of the first process not accepted) + ..."""
    if c.get("fresh") and progress < 100:
        return "baseline-unusable", ("the recorded uninterrupted run is not a complete clean run handed every page, or a second "
                                     "uninterrupted run did not reproduce its files"), 0
    ridx = max(1, progress // 100)
    if ridx > len(tr["runs"]):
        return "no-final-run", "the history does not end with a process that ended by itself", ridx
    run = tr["runs"][ridx - 1]
    before = {(f[0], P.name_of(f[1])) for f in tr["runs"][ridx - 2]["files"]} if ridx >= 2 else set()
    after = {(f[0], P.name_of(f[1])) for f in run["files"]}

    def files_of(p):
        out = set()
        for k in c["kinds"]:
            if k == "lines":
                out |= {(k, "%s-%s.jpg" % (p, lid)) for lid in line_ids(c)}
            else:
                out.add((k, p + {"xml": ".xml", "render": ".jpg", "logits": ".logits", "alto": ".xml"}[k]))
        return out
    pages = P.order_of(c["pages"])
    redone = [P.name_of(p) for p in run["started"] if files_of(P.name_of(p)) <= before]
    kinds = "{%s}" % ",".join(c["kinds"])
    if redone:
        tricky = any(t in P.EXT_TOKENS for p in redone for t in P.tokens_of(p))
        if c["kinds"] == ["lines"]:
            sig = "redo-complete:kinds={lines}"
        elif tricky:
            sig = "redo-complete:id-with-extension-substring"
        else:
            sig = "redo-complete:kinds=" + kinds
        return sig, "process %d started page(s) %s although all their requested outputs were present" % (ridx, redone), ridx
    if run["exit"] not in ("ok", "killed"):
        nothing = "nothing-to-do" if not run["started"] else "pages-to-do"
        return "unclean-exit:%s:%s" % (run["exit"], nothing), "process %d ended with %s (%d pages to do)" % (
            ridx, run["exit"], len(run["started"])), ridx
    if run["exit"] == "ok":
        missing = sorted(set().union(*[files_of(p) for p in pages]) - after)
        if missing:
            whole = [p for p in pages if not (files_of(p) & after)]
            mk = sorted({k for k, _ in missing}, key=ALL.index)
            tricky = any(t in P.EXT_TOKENS for p in pages for t in P.tokens_of(p))
            if whole and tricky:
                sig = "missing-output:page-never-processed:id-with-extension-substring"
            elif whole:
                sig = "missing-output:page-never-processed"
            else:
                sig = "missing-output:" + ",".join(mk)
            return sig, "process %d ended by itself but %s missing" % (ridx, ["%s/%s" % m for m in missing]), ridx
        if not all(f[2] for f in run["files"]):
            return "content-differs", "process %d ended by itself, file(s) %s differ from an uninterrupted run" % (
                ridx, ["%s/%s" % (f[0], P.name_of(f[1])) for f in run["files"] if not f[2]]), ridx
    return "unclassified", "history rejected at process %d" % ridx, ridx


def judge(ctx, c, traces, selftest=True, design=True):
    mc = {"MC_PFT.tla": mc_module("MC_PFT", "ParseFolder_Trace", c)}
    maxk = max(len(t["runs"]) for t in traces) + 1
    kp = dict(constants(c, crashes=maxk), Detailed=False)
    # binding of the trace kind "fresh", validated in the same JVM as the histories (two corrupted copies of the first history,
    # appended): (1) the ALTO file of the last page differs from the uninterrupted run -> must be rejected at the process that
    # ended by itself; (2) one file of the baseline not reproduced by the second uninterrupted run -> must be rejected at PRef
    extra = []
    if c.get("fresh") and selftest and "selftest_fresh_corrupted_traces" not in ctx.notes:
        import copy
        bad1, bad2 = copy.deepcopy(traces[0]), copy.deepcopy(traces[0])
        fl = bad1["runs"][-1]["files"]
        alto = [n for n, f in enumerate(fl) if f[0] == "alto"]
        if alto and bad2["reference"]["files"]:
            fl[alto[-1]][2] = False
            bad2["reference"]["files"][0][2] = False
            extra = [bad1, bad2]
    acc, rej = ctx.validate("MC_PFT", traces + extra, constants=kp, files=mc, label="ParseFolder_Trace property " + label(c))
    if extra:
        srej = [(i - len(traces), pr) for i, pr in rej if i >= len(traces)]
        rej = [(i, pr) for i, pr in rej if i < len(traces)]
        if 0 not in {i for i, _ in rej}:           # the pristine history was accepted: both corrupted copies must be rejected
            ok = [x[0] for x in srej] == [0, 1] and srej[0][1] >= 100 and srej[1][1] < 100
            ctx.notes["selftest_fresh_corrupted_traces"] = {"rejected": srej, "ok": bool(ok)}
            if not ok:
                raise MachineryFailure("binding self-test of the trace kind 'fresh' failed: rejected=%s" % (srej,))
    rejected = {i for i, _ in rej}
    for i, tr in enumerate(traces):
        fired = sum(1 for r in tr["runs"] if r["exit"] == "killed")
        ctx.count(1, (label(c), tuple(tr["schedule"])) if fired else None)
    ctx.sample({"config": label(c), "history": _brief(traces[len(traces) // 2])}, limit=4)
    for idx, prog in rej:
        tr = traces[idx]
        sig, what, _ = clause(c, tr, prog)
        if sig == "baseline-unusable":
            # C17 compares with "an uninterrupted run": without a usable one nothing can be concluded (never a verdict)
            ctx.model_drift("fresh-process history not judged: " + what, 1, {"config": label(c), "schedule": tr["schedule"]})
            continue
        hist = ctx.notes.setdefault("rejected_histories_by_signature", {})
        hist[sig] = hist.get(sig, 0) + 1
        ctx.violation({"cfg": c, "schedule": [k if k != P.NO_KILL else -1 for k in tr["schedule"]], "trace": tr,
                       "progress": prog}, sig,
                      "%s; config %s; kill schedule %s (k = killed right after its k-th write, %d = not killed)" % (
                          what, label(c), tr["schedule"], P.NO_KILL))
    if not design:
        return rej
    # design conformance: repaired model first, then the all-legacy model for what it rejects
    kd = dict(constants(c, crashes=maxk), Detailed=True)
    before = ctx.traces_validated          # only the property-level pass counts as "validated against the implementation"
    _, drej = ctx.validate("MC_PFT", traces, constants=kd, files=mc, label="ParseFolder_Trace design(repaired) " + label(c))
    ctx.traces_validated = before
    drej_idx = [i for i, _ in drej]
    stats = ctx.notes.setdefault("design_conformance", {"repaired_model": 0, "legacy_model": 0, "neither": 0})
    stats["repaired_model"] += len(traces) - len(drej_idx)
    if drej_idx:
        sub = [traces[i] for i in drej_idx]
        kl = dict(constants(c, legacy=FLAGS, crashes=maxk), Detailed=True)
        before = ctx.traces_validated
        _, lrej = ctx.validate("MC_PFT", sub, constants=kl, files=mc, label="ParseFolder_Trace design(legacy) " + label(c))
        ctx.traces_validated = before
        lrej_idx = {drej_idx[i] for i, _ in lrej}
        stats["legacy_model"] += len(drej_idx) - len(lrej_idx)
        stats["neither"] += len(lrej_idx)
        for i in sorted(lrej_idx):
            if i not in rejected:
                ctx.model_drift("history accepted by the property but a behaviour of neither the repaired nor the legacy model",
                                1, {"config": label(c), "schedule": traces[i]["schedule"]})
    if selftest and "selftest_corrupted_trace_rejected" not in ctx.notes:
        good = [i for i in range(len(traces)) if i not in rejected and len(traces[i]["runs"]) >= 2]
        if good:
            def corrupt(tr):
                tr["runs"][-1]["files"].pop()          # one output of the final listing lost
                return tr
            ctx.selftest_corrupt("MC_PFT", traces[good[0]], corrupt, constants=kp, files=mc)
            dgood = [i for i in good if i not in drej_idx and len(traces[i]["runs"][-1]["writes"]) >= 2]
            if dgood:
                def corrupt2(tr):
                    w = tr["runs"][-1]["writes"]
                    w[0], w[1] = w[1], w[0]            # two writes recorded in the other order
                    return tr
                ctx.selftest_corrupt("MC_PFT", traces[dgood[0]], corrupt2, constants=kd, files=mc)
    return rej


def _brief(tr):
    return {"schedule": tr["schedule"],
            "runs": [{"started": [P.name_of(p) for p in r["started"]], "writes": ["%s/%s" % (w[0], P.name_of(w[1])) for w in r["writes"]],
                      "exit": r["exit"], "files_after": len(r["files"])} for r in tr["runs"]]}


def apalache_induction(ctx):
    """Unbounded part: Apalache proves IndInv of spec/ParseFolderInd.tla inductive for any batch size, any number of crops, any
    subset of single-file outputs and any number of kills, and refutes it for the two order/consultation defects."""
    import shutil
    import subprocess
    import time
    from ..core import VERIF
    exe = shutil.which("apalache-mc")
    if exe is None:
        ctx.notes["apalache"] = "apalache-mc not found: unbounded induction skipped"
        return
    wd = os.path.join(ctx.workdir, "apalache")
    os.makedirs(wd, exist_ok=True)
    shutil.copy(os.path.join(VERIF, "spec", "ParseFolderInd.tla"), wd)
    runs = [("step: IndInv /\\ Next => IndInv' (repaired order, every requested marker consulted)",
             ["--cinit=CInitRepaired", "--init=IndInit", "--inv=IndInv", "--length=1"], "NoError"),
            ("base: Init => IndInv", ["--cinit=CInitRepaired", "--init=Init", "--inv=IndInv", "--length=0"], "NoError"),
            ("self-test: step must fail when the crops are written after the markers",
             ["--cinit=CInitLegacyOrder", "--init=IndInit", "--inv=IndInv", "--length=1"], "Error"),
            ("self-test: step must fail when the last marker (ALTO) is not consulted",
             ["--cinit=CInitAltoNotConsulted", "--init=IndInit", "--inv=IndInv", "--length=1"], "Error")]
    out = []
    for name, args, want in runs:
        t0 = time.time()
        try:
            p = subprocess.run([exe, "check"] + args + ["--out-dir=" + os.path.join(wd, "out"), "ParseFolderInd.tla"], cwd=wd,
                               stdout=subprocess.PIPE, stderr=subprocess.STDOUT, text=True, timeout=900)
        except subprocess.TimeoutExpired:
            raise MachineryFailure("apalache-mc timed out on ParseFolderInd (%s)" % name)
        got = "NoError" if "The outcome is: NoError" in p.stdout else ("Error" if "The outcome is: Error" in p.stdout else "?")
        out.append({"obligation": name, "outcome": got, "wall_s": round(time.time() - t0, 1)})
        if got != want:
            raise MachineryFailure("apalache-mc on ParseFolderInd: %s gave %s, expected %s\n%s" % (name, got, want, p.stdout[-2000:]))
    shutil.rmtree(wd, ignore_errors=True)
    ctx.notes["apalache_inductive_invariant"] = out


def check_fresh_sampled(ctx, c):
    """quick tier of the trace kind "fresh": sampled schedules (the design was model-checked on the other configurations; the full
    graph of this one is walked in the thorough tier), property-level validation only."""
    import time
    t0 = time.time()
    traces = execute(ctx, c, fresh_schedules(c))
    t1 = time.time()
    judge(ctx, c, traces, design=False)
    ctx.notes.setdefault("fresh_process_histories", []).append(
        {"config": label(c), "schedules": [t["schedule"] for t in traces], "line_ids": line_ids(c),
         "tool_processes": sum(len(t["runs"]) for t in traces) + 2, "execution_wall_s": round(t1 - t0, 1),
         "validation_wall_s": round(time.time() - t1, 1)})


def check_config(ctx, c):
    lines_only = c["kinds"] == ["lines"]
    invs = [i for i in INVS if not (lines_only and i == "NeverRedoComplete")]
    mc = {"MC_PF.tla": mc_module("MC_PF", "ParseFolder", c)}
    dump = os.path.join(ctx.workdir, "graph_%d.dot" % len(ctx.tlc_runs))
    # RefinesInd: seen from every page, ParseFolder is a behaviour of ParseFolderInd (the unbounded abstraction proved inductive
    # by Apalache); meaningful when a single-file output is requested (otherwise the 'redone' ghost of the open finding is set)
    props = ["Monotone"] + ([] if lines_only else ["RefinesInd"])
    res = ctx.tlc("MC_PF", constants=constants(c), invariants=invs + ["PrefixOnDisk"], properties=props, files=mc, workers=2,
                  dump=dump, label="ParseFolder " + label(c), timeout=1200)
    if lines_only:
        # the repaired model keeps this one: nothing marks completion when only line crops are requested
        ctx.tlc("MC_PF", constants=constants(c), invariants=["NeverRedoComplete"], files=mc, workers=2,
                expect_violation="NeverRedoComplete", label="ParseFolder open finding " + label(c), coverage=False)
    path = dump if os.path.exists(dump) else dump + ".dot"
    scheds, n_edges = schedules_from_dot(path)
    g = ctx.notes.setdefault("state_graphs", [])
    g.append({"config": label(c), "states": res["distinct"], "edges": n_edges, "paths_executed": len(scheds)})
    traces = execute(ctx, c, scheds)
    judge(ctx, c, traces)


def legacy_selftests(ctx):
    """each defect of the unrepaired tree, re-introduced alone, must violate the named invariant"""
    tests = [("LegacyAlto", cfg(["a", "b"], ["xml", "alto"]), "AllOutputsAfterCleanRun"),
             ("LegacyAlto", cfg(["a", "b"], ["alto"]), "NeverRedoComplete"),
             ("LegacyStem", cfg(["a.jpg.b", "a"], ["xml"]), "AllOutputsAfterCleanRun"),
             ("LegacyStem", cfg(["a", "a.xml.b"], ["xml"]), "NeverRedoComplete"),
             ("LegacyOrder", cfg(["a", "b"], ["xml", "lines"]), "AllOutputsAfterCleanRun"),
             ("LegacyDiv", cfg(["a", "b"], ["xml"]), "CleanExit")]
    for flag, c, inv in tests:
        ctx.tlc("MC_PF", constants=constants(c, legacy=[flag]), invariants=[inv],
                files={"MC_PF.tla": mc_module("MC_PF", "ParseFolder", c)}, workers=2, expect_violation=inv,
                label="self-test %s=TRUE must violate %s" % (flag, inv), coverage=False)
        ctx.tlc("MC_PF", constants=constants(c), invariants=[inv],
                files={"MC_PF.tla": mc_module("MC_PF", "ParseFolder", c)}, workers=2,
                label="self-test counterpart: repaired model satisfies %s" % inv, coverage=False, count=False)


def run(ctx):
    ctx.rule = ("every path of the TLC state graph of ParseFolder (kill after the k-th write of a process, k = 0..all, up to "
                "MaxCrashes kills, then a process left to end) executed by forking the real parse_folder.main() with -s on a "
                "temporary folder; non-trivial = at least one kill fired")
    ctx.exhaustive = True
    ctx.assume("stub PageParser (two text lines per page with logits, crops and transcriptions derived from the page id)",
               "the kill is os._exit right after a write returned: single file writes are atomic (the statement quantifies over points between writes)",
               "output folders are distinct and initially empty; input images *.png; sequential mode (--process-count 1)",
               "equality with an uninterrupted run: bytes, after removing Created/LastChange/processingDateTime")
    P.warm()
    legacy_selftests(ctx)
    apalache_induction(ctx)
    for c in configs(ctx.tier):
        check_config(ctx, c)
    ctx.assume("trace kind 'fresh': a tool process forked from a new interpreter that imported pero-ocr and parse_folder.py but never "
               "handled a page stands for `python parse_folder.py ...` started again (same module state after import)")
    if ctx.tier == "quick":
        check_fresh_sampled(ctx, fresh_cfg())
    else:
        check_fresh_sampled(ctx, fresh_cfg())
        check_config(ctx, fresh_cfg(crashes=1))
    ctx.notes["explanation"] = ("TLC exhaustive on ParseFolder per configuration (invariants %s, property Monotone), Legacy self-tests; "
                                "all paths of each state graph executed against user_scripts/parse_folder.py and validated by "
                                "ParseFolder_Trace (Detailed=FALSE verdict, Detailed=TRUE drift)" % INVS)


def replay(ctx, case):
    c = case["cfg"]
    if not c.get("fresh"):
        P.warm()
        P.STUB["nlines"] = c["nlines"]
    traces = execute(ctx, c, [case["schedule"]])
    judge(ctx, c, traces, selftest=False, design=not c.get("fresh"))
