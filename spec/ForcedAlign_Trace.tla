------------------------- MODULE ForcedAlign_Trace -------------------------
(* Trace layer for ForcedAlign (C05): one recorded execution = the results of
      force_align(cm, labels, blank), force_align(..., return_seq_positions=True) and align_text(cm, labels, blank)
   of the real pero_ocr.core.force_alignment on one (cost matrix, label string, blank index).

   Acceptance is property-level (DESIGN.md 3.4 / Appendix D): ANY valid alignment of minimal total cost is accepted,
   whatever tie-break produced it; the per-character positions may be any most-confident frame of the character's
   frames.  The oracle is the brute force over all C^T frame labellings of the design module (Valid, BestCost), not the
   Viterbi recursion.  The functions are pure, so everything is decided in the initial state:
   verdict = 0 (accepted) or the number of the first clause that fails.

   Trace record: kind ("case" | "scale"), cm (T rows of C costs, 999 = +inf), labels, blank, outcome ("ok" | "error" = ValueError |
   other), path (symbol per frame), seq (character number per frame, 0 on blank frames), pos (1-based frame per character).

   kind = "scale": one call of a SESSION - many calls in one process, one after another, on lines far beyond the bounds TLC can
   enumerate (more than 64 / 128 labels, more than 255 symbols, more than 1024 frames; the shape is that of the record, not the
   constants T, C), lines of equal length that differ only in where labels repeat, infeasible / tight / loose numbers of frames,
   failing calls in between, the callers' list and matrix objects re-used.  C^T labellings cannot be enumerated there, so the
   minimum is computed BY TLC with the Viterbi recursion of the design module itself (PredS / SymOfS; the invariant ColumnExact
   proves that column equal to the brute-force minimum on every bounded shape), carried out on the recorded matrix, together with
   the number of optimal alignments (capped at 2).  Every call is judged on its own, by the same clauses and numbers as a bounded
   case: the statement does not depend on what was aligned before. *)
EXTENDS ForcedAlign, TraceKit
CONSTANT SeqClause     \* TRUE: also judge the return_seq_positions variant (clause 7).  It is not named by the statement, so the
                       \* verdict pass runs with FALSE and a mismatch found with TRUE is reported as MODEL-DRIFT only.
VARIABLES tid, verdict

Tr == Traces[tid]

IsSeqOver(s, n, S) == DOMAIN s = 1..n /\ \A k \in 1..n : s[k] \in S
OptValid == {a \in Valid : PathCost(a) = BestCost}

\* the alignment a (a labelling of the frames) explains the recorded character numbering / the recorded positions
SeqExplainedBy(a) == Tr.seq = CharIdx(a)
PosExplainedBy(a) == PosAdmissible(Tr.pos, CharIdx(a))

Judge ==
    IF Tr.outcome \notin {"ok", "error"} THEN 1                         \* an exception other than the documented failure
    ELSE IF Tr.outcome = "error"
         THEN (IF BlankAmongLabels \/ BestCost >= Inf THEN 0 ELSE 2)    \* failure reported although an alignment exists
    ELSE IF BlankAmongLabels \/ Valid = {} THEN 3                       \* success reported although no alignment exists
    ELSE IF ~IsSeqOver(Tr.path, T, Syms) THEN 4                         \* not one symbol per frame
    ELSE IF Collapse(Tr.path) # labels THEN 5                           \* does not collapse to the labels
    ELSE IF PathCost(Tr.path) # BestCost THEN 6                         \* not of minimal total cost
    ELSE IF SeqClause /\ ~IsSeqOver(Tr.seq, T, 0..L) THEN 7
    ELSE IF SeqClause /\ ~(SeqExplainedBy(Tr.path) \/ \E a \in OptValid : SeqExplainedBy(a)) THEN 7   \* character numbering is not that of an optimal alignment
    ELSE IF ~IsSeqOver(Tr.pos, L, 1..T) THEN 8
    ELSE IF ~StrictlyIncreasing(Tr.pos) THEN 8                          \* positions not strictly increasing
    ELSE IF ~(PosExplainedBy(Tr.path) \/ \E a \in OptValid : PosExplainedBy(a)) THEN 9    \* not the most confident frame of the character
    ELSE 0

\* ------------------------------------------------------------------------------------------------ kind = "scale"
SInf == 1000000000                                   \* +inf of the scale arithmetic (path costs exceed the 999 of the bounded shapes)
SPlus(a, b) == IF a >= SInf \/ b >= SInf THEN SInf ELSE a + b
ST == Len(Tr.cm)                                     \* frames of this call
SSyms == 0..(Len(Tr.cm[1]) - 1)
SC(f, s) == IF Tr.cm[f][s + 1] = Inf THEN SInf ELSE Tr.cm[f][s + 1]       \* 999 = +inf in the record; other costs may exceed it
Explicit(f) == f @@ <<>>                             \* an explicit table (TLC keeps [x \in S |-> e] unevaluated otherwise)
\* one Viterbi column: row[i] = <<minimal cost of a partial alignment ending in HMM state i-1, number of such minimal ones (capped at 2)>>
SFirstRow == Explicit([i \in 1..NS |-> IF i <= 2 THEN <<SC(1, SymOf(i - 1)), IF SC(1, SymOf(i - 1)) >= SInf THEN 0 ELSE 1>>
                                       ELSE <<SInf, 0>>])
SCell(prev, f, i) == LET P == Pred(i - 1)
                         m == MinOf({prev[j + 1][1] : j \in P})
                         n == FoldSet(LAMBDA j, acc : IF prev[j + 1][1] = m THEN acc + prev[j + 1][2] ELSE acc, 0, P)
                         c == SPlus(m, SC(f, SymOf(i - 1)))
                     IN  <<c, IF c >= SInf THEN 0 ELSE Min2(n, 2)>>
\* the loop over the frames f..ST (FoldLeft: evaluated iteratively, a recursive operator 1000+ levels deep is several times slower)
SRun(row, f) == FoldLeft(LAMBDA r, g : Explicit([i \in 1..NS |-> SCell(r, g, i)]), row, [k \in 1..(ST - f + 1) |-> f + k - 1])
SPathCost(a) == FoldSet(LAMBDA f, acc : SPlus(acc, SC(f, a[f])), 0, 1..ST)
\* a labelling that collapses to the labels exists  <=>  enough frames for the labels plus one blank per immediate repeat
\* (independent of the costs; on the bounded shapes this is the invariant FeasibilityBoundary)
SFeasible == /\ ~BlankAmongLabels
             /\ ST >= L + Cardinality({k \in 1..(L - 1) : labels[k] = labels[k + 1]})
SFrameBest(f) == MinOf({SC(f, s) : s \in SSyms})
SPosAdmissible(p, ci) == \A k \in 1..L : /\ p[k] \in FramesOf(ci, k)
                                          /\ \A f \in FramesOf(ci, k) : SFrameBest(p[k]) <= SFrameBest(f)

SJudge ==
    IF Tr.outcome \notin {"ok", "error"} THEN 1
    ELSE IF BlankAmongLabels THEN (IF Tr.outcome = "error" THEN 0 ELSE 3)
    ELSE LET last == SRun(SFirstRow, 2)
             best == Min2(last[NS][1], last[NS - 1][1])
             nopt == (IF last[NS][1] = best THEN last[NS][2] ELSE 0) + (IF last[NS - 1][1] = best THEN last[NS - 1][2] ELSE 0)
         IN  IF Tr.outcome = "error" THEN (IF best >= SInf THEN 0 ELSE 2)
             ELSE IF ~SFeasible THEN 3
             ELSE IF ~IsSeqOver(Tr.path, ST, SSyms) THEN 4
             ELSE IF Collapse(Tr.path) # labels THEN 5
             ELSE IF SPathCost(Tr.path) # best THEN 6
             ELSE IF ~IsSeqOver(Tr.pos, L, 1..ST) THEN 8
             ELSE IF ~StrictlyIncreasing(Tr.pos) THEN 8
             \* the recorded alignment is THE optimal one: align_text has no other alignment to derive its positions from
             ELSE IF nopt = 1 /\ best < SInf /\ ~SPosAdmissible(Tr.pos, CharIdx(Tr.path)) THEN 9
             ELSE 0

TInit == /\ tid \in 1..NTraces
         /\ cm = IF Traces[tid].kind = "scale"
                 THEN [f \in 1..Len(Traces[tid].cm) |-> [s \in 0..(Len(Traces[tid].cm[f]) - 1) |-> Traces[tid].cm[f][s + 1]]]
                 ELSE [f \in 1..T |-> [s \in Syms |-> Traces[tid].cm[f][s + 1]]]
         /\ labels = Traces[tid].labels
         /\ blank = Traces[tid].blank
         /\ phase = "start" /\ t = 0 /\ hist = <<>> /\ path = <<>> /\ pos = <<>>
         /\ verdict = IF Traces[tid].kind = "scale" THEN SJudge ELSE Judge

TNext == UNCHANGED <<vars, tid, verdict>>

TAccept == TKMark(tid, verdict, verdict = 0)
TPost == TKPost
ASSUME TKReset
=============================================================================
