---------------------------- MODULE ArabicOrder ----------------------------
(* C06, last sentence: "The logical/label order conversion used for Arabic script only reorders characters
   (none added, dropped or changed) and applying it twice returns the original string."

   Implementation-shaped machine for two consecutive public calls
        r1 = ArabicHelper.string_to_label_form(text) ;  r2 = ArabicHelper.label_form_to_string(r1)
   (both are ArabicHelper._reverse).  One Scan action per iteration of the character loop, one Close action for
   the block after the loop (trailing-delimiter hand-over), one Emit action for run reversal + order
   reversal + concatenation.  The step operators live in ArabicOps so that AltoExport can use the same
   conversion for the words of Arabic-script lines.

   TLC explores every string of length <= MaxLen over Classes.                                        *)
EXTENDS ArabicOps, TLC
CONSTANTS Classes,   \* subset of the tokens of ArabicOps
          MaxLen

Strs == UNION {[1..n -> Classes] : n \in 0..MaxLen}

VARIABLES text,     \* the argument of the first call
          call,     \* 1, 2: which call is running; 3: both returned
          src,      \* argument of the running call
          i,        \* characters consumed by the running call
          st,       \* [seqs, cur]: closed runs and the open run
          phase,    \* "scan" | "closed" | "idle"
          r1, r2    \* results
vars == <<text, call, src, i, st, phase, r1, r2>>

Init == /\ text \in Strs
        /\ call = 1 /\ src = text /\ i = 0 /\ st = RunState0 /\ phase = "scan"
        /\ r1 = <<>> /\ r2 = <<>>

Scan == /\ phase = "scan" /\ i < Len(src)
        /\ st' = RunStep(st, src[i + 1])
        /\ i' = i + 1
        /\ UNCHANGED <<text, call, src, phase, r1, r2>>

Close == /\ phase = "scan" /\ i = Len(src)
         /\ st' = [seqs |-> RunClose(st), cur |-> Run(<<>>, TRUE)]
         /\ phase' = "closed"
         /\ UNCHANGED <<text, call, src, i, r1, r2>>

Emit == /\ phase = "closed"
        /\ LET res == RunEmit(st.seqs)
           IN  IF call = 1
               THEN /\ r1' = res /\ r2' = r2
                    /\ call' = 2 /\ src' = res /\ i' = 0 /\ st' = RunState0 /\ phase' = "scan"
               ELSE /\ r2' = res /\ r1' = r1
                    /\ call' = 3 /\ phase' = "idle" /\ UNCHANGED <<src, i, st>>
        /\ UNCHANGED text

Next == Scan \/ Close \/ Emit
Spec == Init /\ [][Next]_vars

\* ======================================== properties ================================================
\* the conversion only reorders characters
Permutation == (call >= 2) => SameChars(r1, text)
Permutation2 == (call = 3) => SameChars(r2, r1)
\* applying it twice returns the original string
Involution == (call = 3) => r2 = text
\* the machine computes the operator the trace layer and AltoExport use
MachineIsRev == /\ (call >= 2) => r1 = Rev(text)
                /\ (call = 3) => r2 = Rev(r1)
\* runs never lose a character while scanning (what makes Permutation inductive)
RECURSIVE Flat(_)
Flat(seqs) == IF seqs = <<>> THEN <<>> ELSE seqs[1].chars \o Flat(Tail(seqs))
ScanKeepsAll == (phase = "scan") => Flat(st.seqs) \o st.cur.chars = SubSeq(src, 1, i)
\* closed non-Arabic runs start with a non-delimiter and never end in a delimiter
RunShape == \A k \in 1..Len(st.seqs) :
               LET r == st.seqs[k]
               IN  (~r.arabic) => /\ r.chars # <<>>
                                  /\ ~IsDelim(r.chars[Len(r.chars)])
                                  /\ ~IsAr(r.chars[1]) /\ ~IsDelim(r.chars[1])
=============================================================================
