--------------------------- MODULE Stitch_Trace ---------------------------
(* Trace layer for Stitch (C15).  One trace = one list of parts pushed through the real
   merge_transcriptions_and_logits on every prefix of the list (the merge is a left fold, so the prefix results
   are the intermediate states of the loop) and find_best_overlap on (result so far, next part):

     parts[p]   symbols of part p;  extra[p] surplus logit rows of part p
     steps[j]   j = 1..n: [o |-> detected overlap before merging part j (0 for j = 1), text |-> merged text of
                parts 1..j, rows |-> merged logits as <<part, row>> tags, outcome |-> "ok" | "exception:<type>"]
     final      [text, rows, outcome]: what the caller got for the whole list - the last step itself, or, for the
                engine cases, the line's output of BaseEngineLineOCR.process_lines (model_type = "transformer",
                stub run_ocr) whose recorded window transcriptions are the parts

   TNext is PROPERTY-LEVEL: step j is accepted iff Stitch!StepOK holds for (text of step j-1, part j, detected
   overlap, text and row count of step j).  Whether the recorded text / rows / overlap are exactly those of the
   modelled slice arithmetic and overlap detection is tracked in `drift` and never blocks (progress 1000 =
   property satisfied, detailed model left).

   Scale / scope classes beyond what TLC enumerates (round 7).  The symbols of a trace are plain integers, so a part
   may be written in ANY alphabet: ids 1..8 are the letters a..h, every other id is the Unicode code point of the
   character itself (Latin-1 > 127, Czech / Cyrillic / CJK > 255, U+FFxx just below 65 536, Gothic / mathematical /
   emoji / plane-16 characters > 65 535); lists may have more than 255 parts, parts more than 255 characters, overlaps
   more than 255 characters, surplus logit rows more than 65 535.  TLC cannot enumerate those inputs, but it still
   JUDGES them: every clause below is evaluated by TLC on the recorded integers, nothing is decided in Python.
     kind       "parts" | "scale" | "big".  "big" only switches off the comparison with the modelled overlap detection
                (BestOverlap over 250+ characters costs TLC ~n^4 steps; that comparison is drift, never a verdict).
     line, starts   the line the parts were cut from and the 1-based start of every part in it (<<>>, <<>> when the
                parts are not windows of one text).  TLC itself checks (TrueWindows) that the recorded parts ARE
                overlapping windows of `line`, nothing is taken on trust; a window with recognition noise or an
                inserted empty part simply is not one.
   Two clauses are added to the statement's StepOK for every merge:
     NoCommon   a "detected overlap" o > 0 whose two sides have nothing in place (edit distance >= o, i.e. CER >= 1,
                counted in CHARACTERS) is no overlap: such parts "share no overlap with their neighbour" and must be
                concatenated unchanged (last sentence of the statement);
     win        for true noise-free windows of one text (first class of the scope sentence) the excuse of the weak
                reading ("from floor(o/2) on, because the first half of the overlap is taken from the neighbour") does
                not exist: both sides of the real overlap are the same characters, so "ends with the last part" holds
                IN FULL after every merge.                                                                  *)
EXTENDS Stitch, TraceKit
VARIABLES tid, drift, fin, win

Tr == Traces[tid]
RowsOf(r) == [j \in 1..Len(r) |-> <<r[j][1], r[j][2]>>]

\* the recorded parts are overlapping windows of the recorded line: part p = line[starts[p] .. starts[p] + len - 1], every
\* window starts after and ends not before its predecessor and shares at least one character position with it
TrueWindows(ps, line, st) ==
    /\ Len(st) = Len(ps)
    /\ \A p \in 1..Len(ps) : /\ Len(ps[p]) >= 1 /\ st[p] >= 1 /\ st[p] + Len(ps[p]) - 1 <= Len(line)
                              /\ ps[p] = SubSeq(line, st[p], st[p] + Len(ps[p]) - 1)
    /\ \A p \in 2..Len(ps) : /\ st[p] > st[p - 1] /\ st[p] <= st[p - 1] + Len(ps[p - 1]) - 1
                              /\ st[p] + Len(ps[p]) >= st[p - 1] + Len(ps[p - 1])

\* a detected overlap o > 0 whose sides Suffix(tx, o) / Prefix(t, o) have no character in place (CER >= 1)
NoCommon(tx, t, o) == /\ o > 0 /\ o <= Len(tx) /\ o <= Len(t)
                      /\ Suffix(tx, o) # Prefix(t, o)
                      /\ Lev(Suffix(tx, o), Prefix(t, o)) >= o

TInit == /\ tid \in 1..NTraces
         /\ parts = Tr.parts /\ extra = Tr.extra
         /\ k = 0 /\ txt = <<>> /\ rows = <<>> /\ overlaps = <<>>
         /\ drift = FALSE /\ fin = FALSE
         /\ win = TrueWindows(Tr.parts, Tr.line, Tr.starts)

\* a list with one part is returned as it is, logits shrunk to the text length
First == /\ k = 0 /\ k' = 1
         /\ LET s == Tr.steps[1]
            IN /\ s.outcome = "ok"
               /\ s.text = parts[1] /\ Len(s.rows) = Len(parts[1])
               /\ txt' = s.text /\ rows' = RowsOf(s.rows) /\ overlaps' = <<>>
               /\ drift' = (RowsOf(s.rows) # Tags(1, Len(parts[1])))
         /\ UNCHANGED <<parts, extra>>

TMerge == /\ k >= 1 /\ k < Len(parts) /\ k' = k + 1
          /\ LET s == Tr.steps[k + 1]
                 t == parts[k + 1]
             IN /\ s.outcome = "ok"
                /\ s.o \in 0..Len(t) /\ s.o <= Len(txt)
                /\ StepOK(txt, t, s.o, s.text, Len(s.rows))
                /\ NoCommon(txt, t, s.o) => s.text = txt \o t                 \* nothing in common: concatenated unchanged
                /\ win => IsSuffix(t, s.text)                                 \* true windows: ends with the last part in full
                /\ txt' = s.text /\ rows' = RowsOf(s.rows) /\ overlaps' = Append(overlaps, s.o)
                /\ LET m == MergeTwo(txt, rows, t, Shrunk(k + 1), s.o)
                   IN drift' = (drift \/ (Tr.kind # "big" /\ s.o # BestOverlap(txt, t)) \/ s.text # m[1] \/ RowsOf(s.rows) # m[2])
          /\ UNCHANGED <<parts, extra>>

\* the caller's result is the merge of all parts, with one logits row per character
Finish == /\ k = Len(parts) /\ ~fin /\ fin' = TRUE
          /\ Tr.final.outcome = "ok"
          /\ Tr.final.text = txt /\ Len(Tr.final.rows) = Len(txt)
          /\ drift' = (drift \/ RowsOf(Tr.final.rows) # rows)
          /\ UNCHANGED <<parts, extra, k, txt, rows, overlaps>>

TNext == UNCHANGED <<tid, win>> /\ ((First /\ UNCHANGED fin) \/ (TMerge /\ UNCHANGED fin) \/ Finish)
\* progress: number of merged parts (= Len(parts) when only the caller's final result is wrong); 1000 = statement holds, drift
TAccept == TKMark(tid, IF fin THEN 1000 ELSE k, fin /\ ~drift)
TPost == TKPost
ASSUME TKReset
=============================================================================
