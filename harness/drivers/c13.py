"""C13 - edit distance, alignments and error summaries are exact and consistent (DESIGN.md section 4, C13; Appendix A.7).

1. Design: TLC runs the rolling-row machines of spec/EditDistance.tla (one Step per source symbol, backtrack matrices,
   substring variants with the extra best-end cell, repaired initial row) on every pair of sequences of the bounded shape and
   every cost triple of the config and proves DistanceExact / AlignExact / StatsExact / SubstringExact / SubAlignExact against
   the recursive definition of the minimum edit cost.  Self-test: Legacy=TRUE (initial row without insertion costs) must violate.
2. Cases: the same pairs x cost triples go through the six real functions and ErrorsSummary (symbols instantiated as strings,
   ints, a mixed alphabet, symbols of a large alphabet); aggregation on seeded groups of summaries.
3. Conformance: EditDistance_Trace decides each recorded execution at property level (distance pinned, ANY optimal alignment
   accepted, substring alignments after removing the free ends); the tie-breaks of the modelled machines are compared too, a
   difference there is MODEL-DRIFT only.
"""
import itertools

from .. import ed_common as E

LEVEL = "model_checking"
INVS = ["DistanceExact", "DefinitionsAgree", "AlignExact", "StatsExact", "SubstringExact", "SubAlignExact"]
CLAUSES = {1: "distance", 2: "alignment", 4: "path", 8: "substring-distance", 16: "substring-alignment", 32: "summary",
           64: "aggregate"}
DRIFT = 128
UNIT = (1, 1, 1)
COSTS_12 = list(itertools.product((1, 2), repeat=3))
COSTS_14 = [(3, 1, 2), (4, 4, 1), (1, 3, 4), (2, 4, 3)]


def mc_module(costs):
    return ("---- MODULE MC_EditDistance ----\nEXTENDS EditDistance\nMCCosts == {%s}\n====\n"
            % ", ".join("<<%d, %d, %d>>" % tuple(c) for c in costs))


def design(ctx, alphabet, maxlen, costs, legacy=False, label="", **kw):
    return ctx.tlc("MC_EditDistance", constants={"Alphabet": set(range(1, alphabet + 1)), "MaxLen": maxlen, "Costs": "<-MCCosts",
                                                 "Legacy": legacy},
                   invariants=INVS, files={"MC_EditDistance.tla": mc_module(costs)}, workers=4, timeout=3000,
                   label="EditDistance %s" % label, **kw)


def trace_constants(alphabet, maxlen):
    return {"Alphabet": set(range(1, alphabet + 1)), "MaxLen": maxlen, "Costs": {0}, "Legacy": False}


def pair_cases(ctx, alphabet, maxlen, costs, variant, frac=1.0):
    strs = E.strings(alphabet, maxlen)
    out = []
    for s in strs:
        for t in strs:
            for c in costs:
                if frac < 1.0 and ctx.rng.random() > frac:
                    continue
                if variant in ("bigstr", "bigint"):
                    syms = E.big_syms(ctx.rng, variant)
                else:
                    syms = E.VARIANTS[variant]
                out.append({"src": s, "tgt": t, "cost": list(c), "variant": variant, "syms": syms})
    return out


def long_cases(ctx, n):
    """seeded pairs beyond the TLC bounds (length 5-10, 2-4 symbols): unrelated, equal, and one a (noisy) substring of the other"""
    out = []
    for _ in range(n):
        k = ctx.rng.choice([2, 3, 4])
        a = [ctx.rng.randint(1, k) for _ in range(ctx.rng.randint(5, 10))]
        kind = ctx.rng.choice(["random", "substring", "noisy-substring", "noisy-substring", "equal"])
        if kind == "random":
            b = [ctx.rng.randint(1, k) for _ in range(ctx.rng.randint(3, 10))]
        elif kind == "equal":
            b = list(a)
        else:
            i = ctx.rng.randint(0, len(a) - 3)
            j = ctx.rng.randint(i + 2, len(a))
            b = a[i:j]
            if kind == "noisy-substring":
                for _ in range(ctx.rng.randint(1, 2)):
                    op = ctx.rng.choice(["sub", "ins", "del"])
                    pos = ctx.rng.randint(0, len(b) - 1) if b else 0
                    if op == "sub" and b:
                        b[pos] = 1 + b[pos] % k
                    elif op == "ins":
                        b.insert(pos, ctx.rng.randint(1, k))       # pos 0 = an insertion before the first matched symbol
                    elif b:
                        del b[pos]
        if ctx.rng.random() < 0.5:
            a, b = b, a
        cost = [1, 1, 1] if ctx.rng.random() < 0.6 else [ctx.rng.randint(1, 4) for _ in range(3)]
        variant = ctx.rng.choice(["str", "int", "bigstr", "bigint", "astral"])
        syms = E.big_syms(ctx.rng, variant) if variant.startswith("big") else E.VARIANTS[variant]
        out.append({"src": a, "tgt": b, "cost": cost, "variant": variant, "syms": syms})
    return out


def signature(tr, mask):
    if tr.get("variant") in ("mixed", "mixedstr") and mask & ~(8 | 16):
        return "mixed-symbols"          # an alphabet holding strings and ints: one class whatever functions fail
    return "+".join(n for b, n in sorted(CLAUSES.items()) if mask & b)


def describe(tr, mask):
    if tr["kind"] == "scale":
        return ("a short sequence against %d distinct %s symbols: levenshtein_distance=%s / %s (arguments swapped), ErrorsSummary=%s, "
                "the edit distance is %d" % (tr["n"], tr["symbols"], tr["dist"], tr["dist_r"], tr["summ"], tr["ref"]))
    if tr["kind"] == "agg":
        return "ErrorsSummary.aggregate over %s (handed over as a %s): %s is not the field-wise sum of %s" % (
            tr["pairs"], tr.get("container", "list"), tr["agg"], tr["items"])
    bits = []
    if mask & 1:
        bits.append("levenshtein_distance=%s" % tr["dist"])
    if mask & 2:
        bits.append("levenshtein_alignment=%s" % tr["al"])
    if mask & 4:
        bits.append("levenshtein_alignment_path(+1)=%s" % tr["path"])
    if mask & 8:
        bits.append("levenshtein_distance_substring=%s (-1 = inf)" % tr["sdist"])
    if mask & 16:
        bits.append("levenshtein_alignment_substring=%s" % tr["sal"])
    if mask & 32:
        bits.append("ErrorsSummary.from_lists=%s" % tr["summ"])
    return "src=%s tgt=%s costs(sub,ins,del)=%s symbols=%s: not exact / not optimal / not consistent: %s" % (
        tr["src"], tr["tgt"], tr["cost"], tr["variant"], "; ".join(bits))


def judge(ctx, cases, traces, alphabet, maxlen, label):
    consts = trace_constants(alphabet, maxlen)
    acc, rej = ctx.validate("EditDistance_Trace", traces, constants=consts, label="EditDistance_Trace " + label,
                            shards=max(1, min(4, len(traces) // 2500)))
    drift = [i for i, m in rej if m == DRIFT]
    ctx.traces_validated += len(drift)
    for i, tr in enumerate(traces):
        if tr["kind"] == "pair":
            nt = len(tr["src"]) > 0 and len(tr["tgt"]) > 0 and tr["src"] != tr["tgt"]
            ctx.count(1, (tr["variant"], tuple(tr["src"]), tuple(tr["tgt"]), tuple(tr["cost"])) if nt else None)
        elif tr["kind"] == "scale":
            ctx.count(1, ("scale", tr["n"], tr["symbols"], tr["seed"]))
        else:
            ctx.count(1, ("agg", repr(tr["pairs"])))
    for i in drift:
        ctx.model_drift("alignment differs from the modelled backtrack tie-breaks (optimal all the same)", 1,
                        {k: traces[i][k] for k in ("src", "tgt", "cost", "variant") if k in traces[i]})
    viol = [(i, m & ~DRIFT, signature(traces[i], m & ~DRIFT)) for i, m in rej if m != DRIFT]
    seen, first, rest = set(), [], []
    for v in viol:
        (first if v[2] not in seen else rest).append(v)
        seen.add(v[2])
    for i, m, sig in first + rest:
        ctx.violation({"case": cases[i], "alphabet": alphabet, "maxlen": maxlen, "mask": m, "trace": traces[i]}, sig,
                      describe(traces[i], m))
        ctx.notes.setdefault("rejections_by_signature", {}).setdefault(sig, 0)
        ctx.notes["rejections_by_signature"][sig] += 1
    bad = {i for i, _ in rej}
    return [tr for i, tr in enumerate(traces) if i not in bad]


def agg_cases(ctx, alphabet, maxlen, n):
    strs = E.strings(alphabet, maxlen)
    out = []
    for _ in range(n):
        k = ctx.rng.randint(0, 5)
        out.append({"kind": "agg", "pairs": [[ctx.rng.choice(strs), ctx.rng.choice(strs)] for _ in range(k)]})
    return out


def run(ctx):
    ctx.rule = ("every pair of sequences over 2-3 symbols up to length 3-4 (incl. empty, equal, substring of the other, insertion before "
                "the first match) x cost triples from 1..4, through levenshtein_distance / _alignment / _alignment_path / _distance_substring / "
                "_alignment_substring / ErrorsSummary; symbols as strings, ints, mixed, large-alphabet; seeded pairs of length 5-10 (unrelated / equal / noisy "
                "substring) on top; non-trivial = both non-empty and different")
    ctx.exhaustive = True
    ctx.assume("substring variants and ErrorsSummary with unit costs only (DESIGN.md Appendix D)",
               "sequences are Python lists of hashable symbols; no symbol of a mixed alphabet is the str() of another one",
               "substring alignments are judged after removing the leading/trailing pairs whose shorter-side element is empty")
    quick = ctx.tier == "quick"
    a, n = 2, 3
    costs = COSTS_12 + COSTS_14
    design(ctx, a, n, costs, label="alphabet=2 len<=3 12 cost triples")
    design(ctx, 3, 2, [UNIT, (2, 1, 3)], label="alphabet=3 len<=2")
    design(ctx, 2, 2, [UNIT], legacy=True, expect_violation="SubstringExact", label="Legacy=TRUE (self-test)")
    groups = [("str", a, n, costs, 1.0), ("int", a, n, [UNIT, (1, 2, 3)], 1.0), ("mixed", a, n, [UNIT, (2, 1, 3)], 1.0),
              ("mixedstr", a, n, [UNIT], 1.0), ("astral", a, n, [UNIT, (2, 1, 3)], 1.0), ("bigstr", a, n, [UNIT, (3, 2, 1)], 0.5), ("bigint", a, n, [UNIT, (1, 3, 2)], 0.5), ("str", 3, 2, [UNIT, (2, 1, 3)], 1.0)]
    if not quick:
        more = [UNIT, (2, 1, 3), (1, 3, 2), (3, 2, 1)]
        design(ctx, 3, 4, [UNIT], label="alphabet=3 len<=4 unit costs")
        design(ctx, 2, 4, more + COSTS_14, label="alphabet=2 len<=4")
        groups += [("str", 3, 4, [UNIT], 1.0), ("str", 3, 4, [(2, 1, 3)], 0.5), ("mixed", 3, 3, [UNIT], 1.0),
                   ("int", 3, 4, [UNIT, (2, 1, 3)], 0.15), ("str", 2, 4, more + COSTS_14, 1.0), ("bigstr", 3, 4, [UNIT], 0.2),
                   ("bigint", 4, 3, [UNIT], 0.3)]
    selftest = False
    for variant, alpha, mlen, cs, frac in groups:
        cases = pair_cases(ctx, alpha, mlen, cs, variant, frac)
        if frac < 1.0:
            ctx.exhaustive = False
        traces = E.run_pairs(cases)
        label = "%s alphabet=%d len<=%d" % (variant, alpha, mlen)
        good = judge(ctx, cases, traces, alpha, mlen, label)
        pick = [t for t in good if len(t["src"]) >= 2 and len(t["tgt"]) >= 2 and t["unit"]]
        if pick:
            ctx.sample({"group": label, "trace": pick[len(pick) // 2]}, limit=4)
        if not selftest and pick:
            def corrupt(tr):
                tr["dist"]["v"] += 1          # the recorded distance is one too large
                return tr
            ctx.selftest_corrupt("EditDistance_Trace", pick[len(pick) // 2], corrupt, constants=trace_constants(alpha, mlen))
            selftest = True
    longs = long_cases(ctx, 400 if quick else 5000)
    good = judge(ctx, longs, E.run_pairs(longs), 4, 10, "seeded pairs of length 5-10 (beyond the TLC bounds)")
    if good:
        ctx.sample({"group": "long", "trace": good[len(good) // 2]}, limit=5)
    ctx.notes["long_pairs"] = len(longs)
    aggs = agg_cases(ctx, 2, 3, 60 if quick else 400)
    traces = [E.run_agg(c) for c in aggs]
    judge(ctx, aggs, traces, 2, 3, "aggregate")
    # scale: more distinct symbols in one pair than any 16-bit code can tell apart
    scale = [{"kind": "scale", "n": n, "symbols": k, "seed": ctx.seed * 97 + n % 89} for n, k in
             ([(70000, "int"), (66000, "str")] if quick else [(70000, "int"), (66000, "str"), (140000, "int"), (300, "str"), (33000, "int")])]
    judge(ctx, scale, [E.run_scale(c) for c in scale], 2, 3, "scale")
    ctx.notes["explanation"] = ("TLC exhaustive on EditDistance per bounds (invariants %s) + Legacy self-test; every pair x cost triple executed on "
                                "pero_ocr.sequence_alignment / ErrorsSummary and decided by EditDistance_Trace (property level; tie-breaks = drift)" % INVS)


def replay(ctx, case):
    c = case["case"]
    tr = E.run_agg(c) if c.get("kind") == "agg" else (E.run_scale(c) if c.get("kind") == "scale" else E.run_pair(c))
    judge(ctx, [c], [tr], case["alphabet"], case["maxlen"], "replay")
