---------------------------- MODULE LogitsStore ----------------------------
(* Saving / loading the per-line logits of a page layout (C09): PageLayout._gen_logits, save_logits,
   save_logits_bytes, load_logits, TextLine.get_dense_logits / get_full_logprobs (pero_ocr/core/layout.py).

   Two live layouts A and B (sequences of lines with unique ids; the real objects spread them over regions),
   two stores ("file" = a path on disk, "bytes" = an in-memory pickle).  A line is [id, lg, ch, co]:
   lg / ch / co are provenance tags of the logit matrix, the character table and the frame window
   (0 = None, NoneNone = the window [None, None]); a tag lg also names a concrete small matrix Mats[lg]
   (integers in 1/8, 0 = pruned entry) for the dense reconstruction.

   One action per public call:
     Save(L, k, ok)     save_logits(path, missing_line_logits_ok = ok) / save_logits_bytes(ok)
     SaveLegacy(L)      a file written by an old version: logits only, no character tables / windows
     Load(L, k, lc)     load_logits(path | bytes)
     Dense(L, i, fl)    get_dense_logits(zero_logit_value = -fl) of line i (+ get_full_logprobs, judged in the trace layer)
     Rescale(L, i)      the caller edits the stored logits of line i IN PLACE (line.logits *= 2 resp. *= 0.5, or the same on
                        line.logits.data): the matrix object stays, its values change - tag t <-> t + 20 (round 9)
     Scribble(L, i)     the caller modifies in place the arrays that earlier Dense calls of line i handed out (they are
                        reconstructions, the caller owns them): no effect on anything (round 9)
     Observe(kind, L, i, tok)  an output computed from the layout: kind "decode" = transcription of line i produced by the
                        page decoder (a function of the line's logits and character table), kind "alto" = the text of the
                        ALTO export of the whole layout (a function of the lines' ids and their three components; the
                        ids stand for what PAGE XML carries: transcription and geometry).  tok is an opaque token; the
                        action only demands that equal inputs give equal outputs (obsmap stays a function).
   What the statement leaves open is left open: with ok = TRUE a line with a missing component may or may
   not be written (S); after loading a legacy file the character table / window of a matched line are
   whatever the code chooses (lc).                                                                    *)
EXTENDS Integers, Sequences, FiniteSets, TLC
CONSTANTS InitA, InitB,     \* sets of initial layouts
          Mats,             \* tag |-> matrix
          Floors,           \* magnitudes of the floor value exercised (80 = the default -80)
          SaveFrom, LoadInto, DenseOn,   \* design only: which layouts the calls are applied to (bounds the search)
          EditOn,           \* design only: layouts whose lines the caller edits in place (Rescale / Scribble)
          ObsToks,          \* design only: tokens an output may take ({} switches Observe off)
          MaxOps

None == 0
NoneNone == 1000
Names == {"A", "B"}
Slots == {"file", "bytes"}
\* round 9: a matrix edited in place.  Tag t + ScaleOff = the matrix of tag t with every stored logit doubled (exact in binary
\* floating point); the projection renders every stored 0 < |x| < 1e-6 as +-Tiny, doubled or not.
ScaleOff == 20
Tiny == 77
ScaleOf(t) == IF t > ScaleOff THEN t - ScaleOff ELSE t + ScaleOff
HasMat(t) == t \in DOMAIN Mats \/ (t > ScaleOff /\ (t - ScaleOff) \in DOMAIN Mats)
MatOf(t) == IF t \in DOMAIN Mats THEN Mats[t]
            ELSE LET m == Mats[t - ScaleOff]
                 IN [r \in 1..Len(m) |-> [c \in 1..Len(m[r]) |-> IF m[r][c] \in {Tiny, 0 - Tiny} THEN m[r][c] ELSE 2 * m[r][c]]]
Missing(l) == l.lg = None \/ l.ch = None \/ l.co = None
Triple(l) == <<l.lg, l.ch, l.co>>
NoStore == [present |-> FALSE, legacy |-> FALSE, ents |-> {}]
LinesOf(s) == {s[i] : i \in 1..Len(s)}
IdsOf(s) == {s[i].id : i \in 1..Len(s)}
UniqueIds(s) == \A i, j \in 1..Len(s) : i # j => s[i].id # s[j].id

VARIABLES lay,      \* name |-> layout
          store,    \* slot |-> [present, legacy, ents]
          origin,   \* history: slot |-> the layout whose Save produced the slot's content
          before,   \* history: lay before the last call
          sbefore,  \* history: store before the last call
          last,     \* the last call and its outcome
          obs,      \* result of the last Dense
          obsmap,   \* outputs observed so far: set of [kind, key, tok]
          nops
vars == <<lay, store, origin, before, sbefore, last, obs, obsmap, nops>>

Call(op, L, k, ok, status, i, fl) == [op |-> op, L |-> L, k |-> k, ok |-> ok, status |-> status, i |-> i, fl |-> fl]

Init == /\ \E a \in InitA, b \in InitB : lay = [n \in Names |-> IF n = "A" THEN a ELSE b]
        /\ store = [k \in Slots |-> NoStore] /\ origin = [k \in Slots |-> <<>>]
        /\ before = lay /\ sbefore = store /\ last = Call("none", "A", "file", FALSE, "ok", 0, 0) /\ obs = <<>> /\ obsmap = {} /\ nops = 0

Save(L, k, ok) ==
  /\ nops < MaxOps
  /\ LET src == lay[L]
         miss == {src[i].id : i \in {j \in 1..Len(src) : Missing(src[j])}}
     IN IF miss # {} /\ ~ok
        THEN /\ last' = Call("Save", L, k, ok, "error", 0, 0)          \* reported, nothing written
             /\ UNCHANGED <<store, origin>>
        ELSE /\ \E S \in SUBSET miss :
                   store' = [store EXCEPT ![k] = [present |-> TRUE, legacy |-> FALSE,
                                                  ents |-> {l \in LinesOf(src) : ~Missing(l) \/ l.id \in S}]]
             /\ origin' = [origin EXCEPT ![k] = src]
             /\ last' = Call("Save", L, k, ok, "ok", 0, 0)
  /\ before' = lay /\ sbefore' = store /\ nops' = nops + 1
  /\ UNCHANGED <<lay, obs, obsmap>>

SaveLegacy(L) ==
  /\ nops < MaxOps
  /\ store' = [store EXCEPT !["file"] = [present |-> TRUE, legacy |-> TRUE,
                  ents |-> {[id |-> l.id, lg |-> l.lg, ch |-> None, co |-> None] : l \in {x \in LinesOf(lay[L]) : x.lg # None}}]]
  /\ origin' = [origin EXCEPT !["file"] = lay[L]]
  /\ last' = Call("SaveLegacy", L, "file", FALSE, "ok", 0, 0)
  /\ before' = lay /\ sbefore' = store /\ nops' = nops + 1
  /\ UNCHANGED <<lay, obs, obsmap>>

Load(L, k, lc) ==
  /\ nops < MaxOps /\ store[k].present
  /\ LET f == store[k]
         Hit(l) == \E e \in f.ents : e.id = l.id
         Ent(l) == CHOOSE e \in f.ents : e.id = l.id
     IN lay' = [lay EXCEPT ![L] = [i \in 1..Len(lay[L]) |->
                  LET l == lay[L][i]
                  IN IF ~Hit(l) THEN l                                            \* absent from the file: untouched
                     ELSE IF f.legacy THEN [id |-> l.id, lg |-> Ent(l).lg, ch |-> lc[i][1], co |-> lc[i][2]]
                     ELSE [id |-> l.id, lg |-> Ent(l).lg, ch |-> Ent(l).ch, co |-> Ent(l).co]]]
  /\ last' = Call("Load", L, k, FALSE, "ok", 0, 0)
  /\ before' = lay /\ sbefore' = store /\ nops' = nops + 1
  /\ UNCHANGED <<store, origin, obs, obsmap>>

DenseOf(m, fl) == [r \in 1..Len(m) |-> [c \in 1..Len(m[r]) |-> IF m[r][c] = 0 THEN 0 - 8 * fl ELSE m[r][c]]]
Dense(L, i, fl) ==
  /\ nops < MaxOps /\ i \in 1..Len(lay[L]) /\ HasMat(lay[L][i].lg)
  /\ obs' = DenseOf(MatOf(lay[L][i].lg), fl)
  /\ last' = Call("Dense", L, "file", FALSE, "ok", i, fl)
  /\ before' = lay /\ sbefore' = store /\ nops' = nops + 1
  /\ UNCHANGED <<lay, store, origin, obsmap>>

\* the stored logits of line i are edited in place: the line now holds the scaled matrix, nothing else changes; every later
\* Save / Load / Dense works on what the line holds NOW
Rescale(L, i) ==
  /\ nops < MaxOps /\ i \in 1..Len(lay[L]) /\ HasMat(lay[L][i].lg) /\ HasMat(ScaleOf(lay[L][i].lg))
  /\ lay' = [lay EXCEPT ![L][i].lg = ScaleOf(@)]
  /\ last' = Call("Rescale", L, "file", FALSE, "ok", i, 0)
  /\ before' = lay /\ sbefore' = store /\ nops' = nops + 1
  /\ UNCHANGED <<store, origin, obs, obsmap>>

\* arrays handed out by earlier Dense calls are the caller's: whatever the caller does to them touches neither layout nor store
Scribble(L, i) ==
  /\ nops < MaxOps /\ i \in 1..Len(lay[L]) /\ HasMat(lay[L][i].lg)
  /\ last' = Call("Scribble", L, "file", FALSE, "ok", i, 0)
  /\ before' = lay /\ sbefore' = store /\ nops' = nops + 1
  /\ UNCHANGED <<lay, store, origin, obs, obsmap>>

Observe(kind, L, i, tok) ==
  /\ nops < MaxOps /\ kind \in {"decode", "alto"}
  /\ (kind = "decode") => (i \in 1..Len(lay[L]) /\ lay[L][i].lg # None /\ lay[L][i].ch # None)
  /\ LET key == IF kind = "decode" THEN <<[id |-> "", lg |-> lay[L][i].lg, ch |-> lay[L][i].ch, co |-> None]>> ELSE lay[L]
     IN /\ \A e \in obsmap : (e.kind = kind /\ e.key = key) => e.tok = tok         \* equal inputs, equal outputs
        /\ obsmap' = obsmap \cup {[kind |-> kind, key |-> key, tok |-> tok]}
  /\ last' = Call("Observe", L, "file", FALSE, "ok", i, 0)
  /\ before' = lay /\ sbefore' = store /\ nops' = nops + 1
  /\ UNCHANGED <<lay, store, origin, obs>>

LegacyDefault(L) == [i \in 1..Len(lay[L]) |-> <<None, NoneNone>>]
Next == \/ \E L \in SaveFrom, k \in Slots, ok \in BOOLEAN : Save(L, k, ok)
        \/ \E L \in SaveFrom : SaveLegacy(L)
        \/ \E L \in LoadInto, k \in Slots : Load(L, k, LegacyDefault(L))
        \/ \E L \in DenseOn, fl \in Floors : \E i \in 1..Len(lay[L]) : Dense(L, i, fl)
        \/ \E L \in EditOn : \E i \in 1..Len(lay[L]) : Rescale(L, i) \/ Scribble(L, i)
        \/ \E L \in DenseOn, tok \in ObsToks : \/ Observe("alto", L, 0, tok)
                                                 \/ \E i \in 1..Len(lay[L]) : Observe("decode", L, i, tok)
Spec == Init /\ [][Next]_vars

\* ======================================== properties (C09) ==========================================
Other(L) == IF L = "A" THEN "B" ELSE "A"
\* same ids => all three components restored; ids absent from the file untouched; nothing else changes
InvRestore ==
  (last.op = "Load" /\ ~store[last.k].legacy) =>
     LET L == last.L
         src == origin[last.k]
     IN /\ lay[Other(L)] = before[Other(L)]
        /\ Len(lay[L]) = Len(before[L])
        /\ \A i \in 1..Len(lay[L]) :
              LET l == before[L][i]
                  n == lay[L][i]
              IN /\ n.id = l.id
                 /\ IF l.id \in IdsOf(src)
                    THEN LET s == CHOOSE x \in LinesOf(src) : x.id = l.id
                         IN IF Missing(s) THEN Triple(n) \in {Triple(s), Triple(l)}    \* only reachable with ok = TRUE
                            ELSE Triple(n) = Triple(s)
                    ELSE n = l
InvRestoreLegacy ==
  (last.op = "Load" /\ store[last.k].legacy) =>
     LET L == last.L
         src == origin[last.k]
     IN /\ lay[Other(L)] = before[Other(L)] /\ Len(lay[L]) = Len(before[L])
        /\ \A i \in 1..Len(lay[L]) :
              LET l == before[L][i]
                  n == lay[L][i]
              IN /\ n.id = l.id
                 /\ IF \E x \in LinesOf(src) : x.id = l.id /\ x.lg # None
                    THEN n.lg = (CHOOSE x \in LinesOf(src) : x.id = l.id).lg
                    ELSE n = l
\* a missing component is reported instead of being saved silently (unless explicitly allowed); a report writes nothing;
\* a complete layout is never refused; saving does not change a layout
InvReports ==
  (last.op = "Save") =>
     LET anyMissing == \E l \in LinesOf(before[last.L]) : Missing(l)
     IN /\ (last.status = "error") <=> (anyMissing /\ ~last.ok)
        /\ (last.status = "error") => store = sbefore
        /\ (last.status = "ok") => /\ store[last.k].present
                                   /\ \A l \in LinesOf(before[last.L]) : ~Missing(l) => l \in store[last.k].ents
                                   /\ store[last.k].ents \subseteq LinesOf(before[last.L])
        /\ lay = before
\* dense reconstruction: stored logits unchanged, floor elsewhere, the layout untouched
InvDense ==
  (last.op = "Dense") =>
     LET m == MatOf(before[last.L][last.i].lg)       \* what the line held when the call was made - on EVERY call
     IN /\ Len(obs) = Len(m)
        /\ \A r \in 1..Len(m) : /\ Len(obs[r]) = Len(m[r])
                                /\ \A c \in 1..Len(m[r]) : obs[r][c] = IF m[r][c] # 0 THEN m[r][c] ELSE 0 - 8 * last.fl
        /\ lay = before /\ store = sbefore
\* in-place edits by the caller: only the edited line's matrix changes (to the scaled one); modifying arrays that were handed
\* out changes nothing
InvEdit ==
  /\ (last.op = "Scribble") => (lay = before /\ store = sbefore)
  /\ (last.op = "Rescale") =>
        /\ store = sbefore /\ lay[Other(last.L)] = before[Other(last.L)] /\ Len(lay[last.L]) = Len(before[last.L])
        /\ \A j \in 1..Len(lay[last.L]) :
              IF j = last.i THEN lay[last.L][j] = [before[last.L][j] EXCEPT !.lg = ScaleOf(@)] ELSE lay[last.L][j] = before[last.L][j]
\* a layout rebuilt from the saved logits gives the same outputs as the original: outputs are functions of the restored
\* components (obsmap is a function), and InvRestore says the components are restored
InvFunctional == \A e, f \in obsmap : (e.kind = f.kind /\ e.key = f.key) => e.tok = f.tok
InvUnique == \A L \in Names : UniqueIds(lay[L])
=============================================================================
