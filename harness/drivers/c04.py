"""C04 - greedy transcription = CTC collapse of the arg-max path; engine decoder == stand-alone decoder
(DESIGN.md section 4 C04, Appendix A.15).

1. Design: TLC checks spec/Greedy.tla for every batch of N lines x T <= MaxT frames over C classes (blank = last class):
   the groupby scan of GreedyDecoder and the vectorised algorithm of greedy_decode_ctc (prepended forced-blank frame, +1 shift,
   repeat mask, blank -> 0, -1) both equal Collapse = drop-blanks(merge-repeats(path)) on every line, and agree with each other.
   The three defects of Appendix B seeded inside the model (Mut) must violate.
2. Cases: every TLC initial state (batch of arg-max paths) is rendered as a score tensor N x C x T with a unique arg-max per frame
   (seeded margins / distractor values, occasionally large magnitudes) and decoded by the real greedy_decode_ctc, by
   GreedyDecoder on the log-softmax of each line and by PytorchEngineLineOCR.run_ocr with a stub network returning the same scores.
3. Conformance: TLC judges every recorded execution in Greedy_Trace (all three texts of every line = Collapse).
"""
import itertools
import random

import numpy as np

from ..core import pmap

LEVEL = "model_checking"
INVS = ["ScanIsCollapse", "VecIsCollapse", "DecodersAgree"]
# character tables deliberately not in code-point order, multi-byte characters included; the last entry is the blank
TABLE = ["q", "Z", "é", "b", "א", "7"]
ENGINE_BLANK = "​"
CLAUSES = {1: "an exception was raised", 2: "greedy_decode_ctc text differs from the CTC collapse of the arg-max path",
           3: "GreedyDecoder text differs from the CTC collapse of the arg-max path",
           4: "PytorchEngineLineOCR.run_ocr text differs from the CTC collapse of the arg-max path",
           5: "char_confidences.greedy_filtration text differs from the CTC collapse of the arg-max path"}
SIGS = {1: "exception", 2: "engine-decoder", 3: "standalone-decoder", 4: "run_ocr", 5: "greedy-filtration"}


def configs(tier):
    q = [{"C": 3, "MaxT": 4, "N": 2, "cap": None}, {"C": 3, "MaxT": 6, "N": 1, "cap": None}, {"C": 2, "MaxT": 5, "N": 2, "cap": None}]
    if tier == "quick":
        return q
    return q + [{"C": 4, "MaxT": 6, "N": 1, "cap": None}, {"C": 4, "MaxT": 4, "N": 2, "cap": 30000}, {"C": 3, "MaxT": 3, "N": 3, "cap": None},
                {"C": 5, "MaxT": 5, "N": 1, "cap": None}, {"C": 3, "MaxT": 5, "N": 2, "cap": 30000}]


def _lab(c):
    return "C=%d MaxT=%d N=%d" % (c["C"], c["MaxT"], c["N"])


def batches(c, rng):
    out = []
    for t in range(1, c["MaxT"] + 1):
        rows = list(itertools.product(range(c["C"]), repeat=t))
        out.extend(itertools.product(rows, repeat=c["N"]))
    complete = True
    if c["cap"] and len(out) > c["cap"]:
        out = rng.sample(out, c["cap"])
        complete = False
    return out, complete


_CFG = {}


def render(paths, nc, seed):
    """score tensor N x C x T (float32) whose arg-max in frame f of line n is paths[n][f]; margins, distractors and the overall
    magnitude are seeded (logits of a real network are unnormalised)"""
    rng = random.Random(seed)
    n, t = len(paths), len(paths[0])
    scale = rng.choice([1.0, 1.0, 5.0, 40.0])
    sc = np.empty((n, nc, t), dtype=np.float32)
    for i in range(n):
        for f in range(t):
            top = rng.uniform(-2.0, 3.0)
            for k in range(nc):
                sc[i, k, f] = (top - rng.uniform(0.5, 4.0)) * scale
            sc[i, paths[i][f], f] = top * scale
            if rng.random() < 0.2:      # near tie: second best only 0.5 below the maximum
                other = rng.choice([k for k in range(nc) if k != paths[i][f]])
                sc[i, other, f] = (top - 0.5) * scale
            elif rng.random() < 0.15 and paths[i][f] < nc - 1:
                # exact tie with a LATER class (often the blank, which is last): numpy and torch both document that arg-max
                # returns the first maximal index, so the arg-max path is still the intended one
                later = rng.choice(list(range(paths[i][f] + 1, nc)))
                sc[i, later, f] = sc[i, paths[i][f], f]
    return sc


def _inverse(text, table):
    out = []
    for ch in text:
        out.append(table.index(ch) if ch in table else 99)
    return out


_PERSISTENT_TABLE = []


def _decode_one(item):
    import torch
    from pero_ocr.ocr_engine.pytorch_ocr_engine import greedy_decode_ctc, PytorchEngineLineOCR
    from pero_ocr.decoding.decoders import GreedyDecoder, BLANK_SYMBOL
    paths, seed = item
    nc = _CFG["C"]
    # the character table varies from call to call (rotated alphabet), either as a fresh list or as ONE long-lived list object
    # edited in place: the text must be mapped through the table that is passed in, whatever was decoded before
    rot = seed % 3
    letters = (TABLE[rot:] + TABLE[:rot])[:nc - 1]
    if seed % 2:
        chars = letters + [ENGINE_BLANK]
    else:
        _PERSISTENT_TABLE[:] = letters + [ENGINE_BLANK]
        chars = _PERSISTENT_TABLE
    rec = {"paths": [list(p) for p in paths], "outcome": "ok", "eng": [], "alone": [], "ocr": [], "filt": [], "logits_same": True}
    try:
        sc = render(paths, nc, seed)
        assert (sc.argmax(axis=1) == np.array(paths)).all()
        # engine-side decoder, 3-D input as in run_ocr
        eng = greedy_decode_ctc(torch.from_numpy(sc.copy()), chars)
        rec["eng"] = [_inverse(x, chars) for x in eng]
        # stand-alone decoder on the normalised log-probabilities of each line (frames x symbols)
        gd = GreedyDecoder(letters + [BLANK_SYMBOL])
        alone = []
        for i in range(len(paths)):
            lp = torch.log_softmax(torch.from_numpy(sc[i].T.astype(np.float64).copy()), dim=1).numpy()
            txt = gd(lp).best_hyp().replace(BLANK_SYMBOL, ENGINE_BLANK)
            alone.append(_inverse(txt, chars))
        rec["alone"] = alone
        # the third greedy transcription of the library (pero_ocr/char_confidences.py, per-character confidences for a line):
        # posteriors frames x symbols, blank last
        from pero_ocr.char_confidences import greedy_filtration
        filt = []
        for i in range(len(paths)):
            pr = torch.softmax(torch.from_numpy(sc[i].T.astype(np.float64).copy()), dim=1).numpy()
            filt.append(_inverse(greedy_filtration(pr, chars)[0], chars))
        rec["filt"] = filt
        # the engine itself with a stub network (the network output IS the score tensor)
        e = PytorchEngineLineOCR.__new__(PytorchEngineLineOCR)
        e.device = torch.device("cpu")
        e.embed_id = None
        e.characters = chars
        stub_out = torch.from_numpy(sc.copy())
        e.model = lambda batch: stub_out.clone()
        dec, logits = e.run_ocr(np.zeros((len(paths), 8, 4 * len(paths[0]), 3), dtype=np.uint8))
        rec["ocr"] = [_inverse(x, chars) for x in dec]
        # not part of the statement (drift only): run_ocr hands the network output on as N x T x C
        rec["logits_same"] = bool(logits.shape == (len(paths), len(paths[0]), nc) and np.array_equal(logits, np.transpose(sc, (0, 2, 1))))
    except Exception as ex:      # part of the observation
        rec["outcome"] = "exception:" + type(ex).__name__
    return rec


def execute(c, items):
    global _CFG
    _CFG = dict(c)
    return pmap(_decode_one, items, procs=6)


def consts_of(c, mut="none"):
    return {"C": c["C"], "MaxT": c["MaxT"], "N": c["N"], "Mut": mut}


def judge(ctx, c, traces):
    acc, rej = ctx.validate("Greedy_Trace", traces, constants=consts_of(c), shards=min(8, max(1, len(traces) // 400)),
                            label="Greedy_Trace " + _lab(c))
    blank = c["C"] - 1
    for tr in traces:
        # non-trivial: some line has a repeat split by a blank or an adjacent repeat of a non-blank
        nt = any(any(p[i] == p[i + 1] != blank for i in range(len(p) - 1)) or
                 any(p[i] == p[i + 2] != blank and p[i + 1] == blank for i in range(len(p) - 2)) for p in tr["paths"])
        ctx.count(1, (_lab(c), tuple(map(tuple, tr["paths"]))) if nt else None)
    ctx.sample({"config": _lab(c), "trace": traces[(2 * len(traces)) // 3]}, limit=5)
    changed = [tr for tr in traces if not tr.get("logits_same", True)]
    if changed:
        ctx.model_drift("run_ocr returns logits that are not the permuted network output", len(changed), {"paths": changed[0]["paths"]})
    for idx, clause in rej:
        tr = traces[idx]
        ctx.violation({"cfg": c, "trace": tr, "seed": tr.get("seed", 0), "clause": clause}, SIGS.get(clause, "clause%d" % clause),
                      "%s; C=%d (blank=%d) arg-max paths=%s -> engine=%s stand-alone=%s run_ocr=%s greedy_filtration=%s outcome=%s" % (
                          CLAUSES.get(clause, "?"), c["C"], blank, tr["paths"], tr["eng"], tr["alone"], tr["ocr"], tr.get("filt"), tr["outcome"]))
    return acc, rej


def run(ctx):
    ctx.rule = ("every batch of N lines x T frames of per-frame arg-max symbols over C classes (= the TLC initial states), rendered as a "
                "score tensor with a unique arg-max per frame (seeded margins >= 0.5, magnitudes up to 160); non-trivial = a line with "
                "an adjacent repeat of a non-blank or a repeat split by one blank")
    ctx.assume("the arg-max of every frame is unique with margin >= 0.5 (ties in the network output are outside the statement)",
               "scores stay within (-1000, 1000), the range in which the forced prepended frame of greedy_decode_ctc dominates",
               "only the 3-D (N x C x T) branch of greedy_decode_ctc is exercised")
    ctx.exhaustive = True
    first = True
    for c in configs(ctx.tier):
        ctx.tlc("Greedy", constants=consts_of(c), invariants=INVS, workers=4, timeout=1800, label="Greedy " + _lab(c))
        if first:
            for mut in ("no_mask", "blank_cmp", "no_forced_blank"):
                ctx.tlc("Greedy", constants=consts_of(c, mut), invariants=INVS, workers=4, timeout=900, coverage=False,
                        expect_violation="VecIsCollapse", label="Greedy selftest Mut=%s" % mut)
        bs, complete = batches(c, ctx.rng)
        if not complete:
            ctx.exhaustive = False
        items = [(b, (ctx.seed % 1000) * 1000000 + i) for i, b in enumerate(bs)]
        traces = execute(c, items)
        for tr, it in zip(traces, items):
            tr["seed"] = it[1]
        acc, rej = judge(ctx, c, traces)
        if first and not rej:
            good = next(tr for tr in traces if len(tr["eng"][0]) >= 2)

            def corrupt(tr):
                tr["eng"][0] = tr["eng"][0][:-1]        # the engine's text loses its last character
                return tr
            ctx.selftest_corrupt("Greedy_Trace", good, corrupt, constants=consts_of(c))
        first = False
    ctx.notes["explanation"] = ("TLC exhaustive on Greedy per (C, MaxT, N) with invariants %s; every batch decoded by greedy_decode_ctc, "
                                "GreedyDecoder and a stub-network PytorchEngineLineOCR.run_ocr; texts mapped back through the character "
                                "table and judged by TLC against Collapse" % INVS)


def replay(ctx, case):
    c = case["cfg"]
    tr = case["trace"]
    traces = execute(c, [(tuple(tuple(p) for p in tr["paths"]), case.get("seed", 0))])
    traces[0]["seed"] = case.get("seed", 0)
    judge(ctx, c, traces)
