------------------------- MODULE RegionAssign_Trace -------------------------
(* Trace layer for C11.  Two kinds of recorded executions, both judged at the level of the statement.

   kind = "assign": one real call of layout_helpers.assign_lines_to_regions on grid regions `regs` (shape names)
   and detected lines `lines` ([j, a, b]; det = the detected baseline points); `placed` lists every TextLine found
   in a region afterwards: region name, number of the detected line it stems from (taken from object identity of
   the heights list, not from the id), id string, baseline points and the grid cells its outline covers.
   Coordinates in thousandths of a pixel.
     1  the call returned
     2  all line ids are distinct
     3  every placed line is allowed: at most once per (region, line); its end points are one of the longest
        inside runs (> 2 px) of the detected baseline in that region (Allowed of RegionAssign); every point of
        it lies on the detected baseline
     4  its outline is clipped: covers only cells of the region, in the row of the line (tall = 1: baseline a quarter pixel above the cell centre, ascender height 2.5, the
        outline band also covers the row above)
     5  every line wholly inside a region (> 2 px) is placed there with its points unchanged (Mandatory)
     6  (Detailed only; a mismatch is MODEL-DRIFT) the placed pairs are exactly those of the detailed model

   kind = "extract": one real call of LayoutExtractor.process_page (stub detector) for an option combination;
   `result` lists the regions of the returned page (id, shape name) with their lines (id, cells).
     1  the call returned
     2  all line ids on the page are distinct
     3  every line lies inside its region (cells)

   kind = "tilt": one real call of LayoutExtractor.process_page (stub detector) on a skewed page: rectangular regions
   `rects` ([name, x0, y0, x1, y1] in px) and tilted detected baselines `det` ([a, d, n, ks, h]: points a + ks[m] * d, d a Pythagorean
   direction with |d| = n, h = heights), as in Part C of RegionAssign; `result` lists the regions of the returned page (id, rectangle
   name) with their lines (id, baseline points `pts`, outline vertices `poly`, thousandths of a pixel, clamped to +-6000 px).
   Tolerance TolC = 0.1 px (the rotate-forth-and-back of merge_lines is exact to about 1e-13 px).
     1  the call returned
     2  all line ids on the page are distinct
     3  every line lies inside its region's rectangle and its baseline is a piece of ONE detected baseline (every point on the segment)
     4  its outline lies inside the rectangle and inside the band of that detected baseline (at most max(h) from it, between its ends)
     5  when lines are distributed (DETECT_LINES, or supplied regions that keep their lines): every detected baseline wholly
        inside a rectangle is found in a region of that rectangle with its points unchanged - under MERGE_LINES for the baselines that
        are not mergeable (every other baseline at least twice the summed heights away from its supporting line)        *)
EXTENDS RegionAssign, TraceKit
CONSTANT Detailed
VARIABLES tid, passed

Tr == Traces[tid]
K == 1000
TRegs == {s \in Shapes : \E k \in 1..Len(Tr.regs) : Tr.regs[k] = s.name}
TLines == [n \in 1..Len(Tr.lines) |-> [j |-> Tr.lines[n][1], a |-> Tr.lines[n][2], b |-> Tr.lines[n][3]]]
ShapeNamed(name) == CHOOSE s \in Shapes : s.name = name

\* ---------------------------------------------------------------- kind = "assign"
P(k) == Tr.placed[k]
NP == Len(Tr.placed)
WellFormed(k) == /\ \E s \in TRegs : s.name = P(k).region
                 /\ P(k).line \in 1..Len(TLines)
                 /\ Len(P(k).pts) >= 2
ObsTuple(k) == <<P(k).region, P(k).line, P(k).pts[1][1], P(k).pts[Len(P(k).pts)][1]>>
AllowedK == {<<t[1], t[2], K * t[3], K * t[4]>> : t \in Allowed(TRegs, TLines)}
OnBaseline(k) == LET l == TLines[P(k).line]
                     pts == P(k).pts
                 IN /\ \A m \in 1..Len(pts) : pts[m][2] = K * Y(l) - (IF Tr.tall = 1 THEN 250 ELSE 0)
                    /\ \A m \in 1..(Len(pts) - 1) : pts[m][1] <= pts[m + 1][1]
Clipped(k) == LET r == ShapeNamed(P(k).region)
                  l == TLines[P(k).line]
              IN \A m \in 1..Len(P(k).cells) : /\ <<P(k).cells[m][1], P(k).cells[m][2]>> \in r.cells
                                               /\ P(k).cells[m][2] \in (IF Tr.tall = 1 THEN {l.j - 1, l.j} ELSE {l.j})
A1 == Tr.outcome = "ok"
A2 == Distinct([k \in 1..NP |-> P(k).id])
A3 == /\ \A k \in 1..NP : WellFormed(k)
      /\ \A k1, k2 \in 1..NP : (k1 # k2) => (P(k1).region # P(k2).region \/ P(k1).line # P(k2).line)
      /\ \A k \in 1..NP : ObsTuple(k) \in AllowedK /\ OnBaseline(k)
A4 == \A k \in 1..NP : Clipped(k)
A5 == \A t \in Mandatory(TRegs, TLines) : \E k \in 1..NP : /\ P(k).region = t[1] /\ P(k).line = t[2]
                                                           /\ P(k).pts = Tr.det[t[2]]
A6 == Detailed => {<<P(k).region, P(k).line>> : k \in 1..NP} = {<<t[1], t[2]>> : t \in Allowed(TRegs, TLines)}
PassedA == IF ~A1 THEN 0 ELSE IF ~A2 THEN 1 ELSE IF ~A3 THEN 2 ELSE IF ~A4 THEN 3 ELSE IF ~A5 THEN 4 ELSE IF ~A6 THEN 5 ELSE 6

\* ---------------------------------------------------------------- kind = "extract"
ResIds == Flat([k \in 1..Len(Tr.result) |-> [m \in 1..Len(Tr.result[k].lines) |-> Tr.result[k].lines[m].id]])
B1 == Tr.outcome = "ok"
B2 == Distinct(ResIds)
\* (a region whose polygon the driver cannot match with a library shape is not judged)
B3 == \A k \in 1..Len(Tr.result) : (\E s \in Shapes : s.name = Tr.result[k].name) =>
                                       \A m \in 1..Len(Tr.result[k].lines) :
                                         \A c \in 1..Len(Tr.result[k].lines[m].cells) :
                                            <<Tr.result[k].lines[m].cells[c][1], Tr.result[k].lines[m].cells[c][2]>> \in ShapeNamed(Tr.result[k].name).cells
PassedB == IF ~B1 THEN 0 ELSE IF ~B2 THEN 1 ELSE IF ~B3 THEN 2 ELSE 6

\* ---------------------------------------------------------------- kind = "tilt"
TolC == 100
SaneC == 6000000
NDet == Len(Tr.det)
Det(n) == Tr.det[n]
KnownRect(name) == \E k \in 1..Len(Tr.rects) : Tr.rects[k].name = name
RectNamed(name) == Tr.rects[CHOOSE k \in 1..Len(Tr.rects) : Tr.rects[k].name = name]
DetPtK(n, m) == <<K * (Det(n).a[1] + Det(n).ks[m] * Det(n).d[1]), K * (Det(n).a[2] + Det(n).ks[m] * Det(n).d[2])>>
NPts(n) == Len(Det(n).ks)
SanePt(p) == CAbs(p[1]) <= SaneC /\ CAbs(p[2]) <= SaneC
InRectK(r, p, tol) == /\ K * r.x0 - tol <= p[1] /\ p[1] <= K * r.x1 + tol
                      /\ K * r.y0 - tol <= p[2] /\ p[2] <= K * r.y1 + tol
\* |d| times the signed distance of p from the supporting line of detected baseline n / |d| times its position along it
CrossK(n, p) == (p[1] - K * Det(n).a[1]) * Det(n).d[2] - (p[2] - K * Det(n).a[2]) * Det(n).d[1]
DotK(n, p) == (p[1] - K * Det(n).a[1]) * Det(n).d[1] + (p[2] - K * Det(n).a[2]) * Det(n).d[2]
Between(n, p) == /\ DotK(n, p) >= -(TolC * Det(n).n)
                 /\ DotK(n, p) <= K * Det(n).ks[NPts(n)] * Det(n).n * Det(n).n + TolC * Det(n).n
OnDet(n, p) == CAbs(CrossK(n, p)) <= TolC * Det(n).n /\ Between(n, p)
HMax(n) == IF Det(n).h[1] >= Det(n).h[2] THEN Det(n).h[1] ELSE Det(n).h[2]
InBand(n, p) == CAbs(CrossK(n, p)) <= (K * HMax(n) + TolC) * Det(n).n /\ Between(n, p)
RL(k, m) == Tr.result[k].lines[m]
Judged(k) == KnownRect(Tr.result[k].name)
PieceOf(k, m, n) == \A i \in 1..Len(RL(k, m).pts) : OnDet(n, RL(k, m).pts[i])
LineOK(k, m) == /\ Len(RL(k, m).pts) >= 2
                /\ \A i \in 1..Len(RL(k, m).pts) : /\ SanePt(RL(k, m).pts[i])
                                                    /\ InRectK(RectNamed(Tr.result[k].name), RL(k, m).pts[i], TolC)
                /\ \E n \in 1..NDet : PieceOf(k, m, n)
OutlineOK(k, m) == /\ Len(RL(k, m).poly) >= 3
                   /\ \A i \in 1..Len(RL(k, m).poly) : /\ SanePt(RL(k, m).poly[i])
                                                        /\ InRectK(RectNamed(Tr.result[k].name), RL(k, m).poly[i], TolC)
                   /\ \E n \in 1..NDet : PieceOf(k, m, n) /\ \A i \in 1..Len(RL(k, m).poly) : InBand(n, RL(k, m).poly[i])
Live == Tr.opts.dl = 1 \/ Tr.opts.dr = 0
WhollyInK(r, n) == \A m \in 1..NPts(n) : /\ K * r.x0 + TolC < DetPtK(n, m)[1] /\ DetPtK(n, m)[1] < K * r.x1 - TolC
                                          /\ K * r.y0 + TolC < DetPtK(n, m)[2] /\ DetPtK(n, m)[2] < K * r.y1 - TolC
\* not mergeable with any other detected baseline: both ends of every other baseline lie on one side of n's supporting line, at
\* least twice the summed heights away (merge_lines needs rows that overlap by 0.7 of the smaller height)
Separated(n) == \A o \in 1..NDet : (o # n) =>
                   LET lim == 2 * K * (Det(n).h[1] + Det(n).h[2] + Det(o).h[1] + Det(o).h[2]) * Det(n).n
                       c1 == CrossK(n, DetPtK(o, 1))
                       c2 == CrossK(n, DetPtK(o, NPts(o)))
                   IN (c1 >= lim /\ c2 >= lim) \/ (c1 <= -lim /\ c2 <= -lim)
SamePts(pts, n) == /\ Len(pts) = NPts(n)
                   /\ \A i \in 1..NPts(n) : /\ CAbs(pts[i][1] - DetPtK(n, i)[1]) <= TolC
                                             /\ CAbs(pts[i][2] - DetPtK(n, i)[2]) <= TolC
C1 == Tr.outcome = "ok"
C2 == Distinct(ResIds)
C3 == \A k \in 1..Len(Tr.result) : Judged(k) => \A m \in 1..Len(Tr.result[k].lines) : LineOK(k, m)
C4 == \A k \in 1..Len(Tr.result) : Judged(k) => \A m \in 1..Len(Tr.result[k].lines) : OutlineOK(k, m)
C5 == Live => \A q \in 1..Len(Tr.rects), n \in 1..NDet :
                 (WhollyInK(Tr.rects[q], n) /\ (Tr.opts.merge = 1 => Separated(n)))
                    => \E k \in 1..Len(Tr.result) : /\ Tr.result[k].name = Tr.rects[q].name
                                                     /\ \E m \in 1..Len(Tr.result[k].lines) : SamePts(RL(k, m).pts, n)
PassedC == IF ~C1 THEN 0 ELSE IF ~C2 THEN 1 ELSE IF ~C3 THEN 2 ELSE IF ~C4 THEN 3 ELSE IF ~C5 THEN 4 ELSE 6

Passed == IF Tr.kind = "assign" THEN PassedA ELSE IF Tr.kind = "extract" THEN PassedB ELSE PassedC

TInit == /\ tid \in 1..NTraces
         /\ passed = Passed
         /\ regs = {} /\ lines = <<>> /\ placed = {}
         /\ opt = [dr |-> FALSE, dl |-> FALSE, merge |-> FALSE, multi |-> FALSE]
         /\ page = <<>> /\ oi = 1 /\ mi = 1 /\ phase = "trace"
TNext == UNCHANGED <<vars, tid, passed>>
TAccept == TKMark(tid, passed, passed = 6)
TPost == TKPost
ASSUME TKReset
=============================================================================
