----------------------------- MODULE LayoutChain -----------------------------
(* Growth beyond the listed properties (DESIGN.md sections 8 and 12.5): the chain of layout stages that
   PageParser.process_page runs when RUN_LAYOUT_PARSER is on (pero_ocr/document_ocr/page_parser.py:29-51, 160-378, 520-523):
   LAYOUT_PARSER_1 .. LAYOUT_PARSER_9, each one of

     WHOLE       WholePageRegion            regions := one region "r1" covering the page, without lines
     CNN(a,b,c)  LayoutExtractor            a = DETECT_REGIONS, b = DETECT_LINES, c = MULTI_ORIENTATION (merge / adjust options off)
     FILTER(a,b) LineFilter                 a = FILTER_INCOMPLETE_PAGES, b = FILTER_PAGES_WITH_SHORT_LINES; always drops empty regions
     SIMPLE      TextlineExtractorSimple    appends the detected lines to every region
     LPOST(v)    LinePostprocessor          v = "stretch" | "resample" | "hfr" (HEIGHTS_FROM_REGIONS) | "max" (STRETCH_LINES = max)
     LAYPOST     LayoutPostprocessor        RETRACE_REGIONS off: structure untouched

   The page is abstracted to its structure: a sequence of regions <<id, slot, lines>>; a line is <<id, rid, q>> with rid = the id of
   the region it was created for and q its geometry class ("edge" = short and at the page edge, "short", "long").  Geometry is
   reduced to NS slots (disjoint boxes side by side) plus the slot All of the whole-page region; a detected line of class "long"
   covers the slots lo..hi, "short" lies in slot lo, "edge" in slot 0, "none" outside the page.  The detector output det (polygons
   = a sequence of slots, lines) and the number ks of lines the simple extractor finds per region are the environment, chosen in
   Init, so one TLC run covers every chain x input page x detector output within the bounds.

   Legacy = TRUE reproduces two errors of the present LinePostprocessor (observations outside the listed properties, see
   DESIGN.md): HEIGHTS_FROM_REGIONS raises NameError and STRETCH_LINES = max raises TypeError as soon as a region has a line.  *)
EXTENDS Naturals, Sequences, FiniteSets, TLC
CONSTANTS NS,          \* slots
          MaxP, MaxL,  \* detector output: at most MaxP polygons, MaxL lines
          MaxR,        \* input page: at most MaxR regions (each with at most one line)
          MaxStages,   \* chain length 1..MaxStages
          MaxKs,       \* the simple extractor finds 0..MaxKs lines per region
          Legacy

All == 99
Slots == 0..(NS - 1)
F == FALSE
Cfg(m, a, b, c, v) == [m |-> m, a |-> a, b |-> b, c |-> c, v |-> v]
StageSet == {Cfg("WHOLE", F, F, F, "")}
            \cup {Cfg("CNN", a, b, c, "") : a \in BOOLEAN, b \in BOOLEAN, c \in BOOLEAN}
            \cup {Cfg("FILTER", a, b, F, "") : a \in BOOLEAN, b \in BOOLEAN}
            \cup {Cfg("SIMPLE", F, F, F, "")}
            \cup {Cfg("LPOST", F, F, F, v) : v \in {"stretch", "resample", "hfr", "max"}}
            \cup {Cfg("LAYPOST", F, F, F, "")}

DetLines == {[k |-> "edge", lo |-> 0, hi |-> 0], [k |-> "none", lo |-> 0, hi |-> 0]}
            \cup {[k |-> "short", lo |-> s, hi |-> s] : s \in Slots}
            \cup {[k |-> "long", lo |-> p[1], hi |-> p[2]] : p \in {q \in Slots \X Slots : q[1] <= q[2]}}
SeqsUpTo(S, n) == UNION {[1..k -> S] : k \in 0..n}
DetSet == [polys : SeqsUpTo(Slots, MaxP), lines : SeqsUpTo(DetLines, MaxL)]
NoDet == [polys |-> <<>>, lines |-> <<>>]

\* input regions: supplied ids "A", "B", ...; a supplied line carries the id the simple extractor would generate (worst case)
InName(i) == IF i = 1 THEN "A" ELSE IF i = 2 THEN "B" ELSE "C"
InLines(i, s) == {<<>>} \cup {<<[id |-> InName(i) \o "-l001", rid |-> InName(i), q |-> q]>> : q \in (IF s = 0 THEN {"edge", "short", "long"} ELSE {"short", "long"})}
InRegions(i) == UNION {{[id |-> InName(i), slot |-> s, lines |-> ls] : ls \in InLines(i, s)} : s \in Slots}
InPages == UNION {{p \in [1..n -> UNION {InRegions(i) : i \in 1..MaxR}] : \A i \in 1..n : p[i] \in InRegions(i)} : n \in 0..MaxR}

VARIABLES chain, det, ks, page, pos, outcome, fresh
vars == <<chain, det, ks, page, pos, outcome, fresh>>

Uses(ch, m) == \E i \in DOMAIN ch : ch[i].m = m
Init == /\ chain \in UNION {[1..n -> StageSet] : n \in 1..MaxStages}
        /\ det \in (IF Uses(chain, "CNN") THEN DetSet ELSE {NoDet})         \* irrelevant environment is not enumerated
        /\ ks \in (IF Uses(chain, "SIMPLE") THEN 0..MaxKs ELSE {0})
        /\ page \in InPages
        /\ pos = 0
        /\ outcome = "running"
        /\ fresh = TRUE

\* ------------------------------------------------ ids -----------------------------------------------
Pad3(n) == IF n < 10 THEN "00" \o ToString(n) ELSE IF n < 100 THEN "0" \o ToString(n) ELSE ToString(n)
RegId(i, rot) == "r" \o Pad3(i) \o (IF rot > 0 THEN "_" \o ToString(rot) ELSE "")
LineId(rid, i, suffix) == rid \o "-l" \o Pad3(i) \o suffix

\* ---------------------------------------------- stages ----------------------------------------------
Lands(l, slot) == CASE l.k = "none" -> FALSE
                    [] slot = All -> TRUE
                    [] l.k = "edge" -> slot = 0
                    [] OTHER -> l.lo <= slot /\ slot <= l.hi
\* helpers.assign_lines_to_regions: the line with (0-based) index i in the detector's list becomes <region id>-l<i+1><suffix>
NewLines(region, lines, suffix) ==
    LET idxs == SelectSeq([i \in 1..Len(lines) |-> i], LAMBDA i : Lands(lines[i], region.slot))
    IN  [k \in 1..Len(idxs) |-> [id |-> LineId(region.id, idxs[k], suffix), rid |-> region.id, q |-> lines[idxs[k]].k]]

Orients(c) == IF c.c THEN <<0, 1, 3>> ELSE <<0>>
RECURSIVE CnnRot(_, _, _, _)
CnnRot(regs, c, d, rots) ==
    IF rots = <<>> THEN regs
    ELSE LET rot == Head(rots)
             new == IF c.a THEN [i \in 1..Len(d.polys) |-> [id |-> RegId(i - 1, rot), slot |-> d.polys[i], lines |-> <<>>]] ELSE <<>>
             \* supplied regions receive lines once per orientation: the suffix keeps the ids distinct
             suffix == IF ~c.a /\ rot > 0 THEN "_" \o ToString(rot) ELSE ""
             base == IF c.a THEN new ELSE regs
             assigned == IF c.b THEN [j \in 1..Len(base) |-> [base[j] EXCEPT !.lines = @ \o NewLines(base[j], d.lines, suffix)]]
                         ELSE base
         IN  CnnRot(IF c.a THEN regs \o assigned ELSE assigned, c, d, Tail(rots))
Cnn(regs, c, d) ==
    IF ~(c.a \/ c.b) THEN regs
    ELSE CnnRot(IF c.a THEN <<>> ELSE [j \in 1..Len(regs) |-> [regs[j] EXCEPT !.lines = <<>>]], c, d, Orients(c))

AllLines(regs) == UNION {{<<j, k>> : k \in 1..Len(regs[j].lines)} : j \in 1..Len(regs)}
Filter(regs, c) ==
    LET r1 == IF c.a THEN [j \in 1..Len(regs) |-> [regs[j] EXCEPT !.lines = SelectSeq(@, LAMBDA l : l.q # "edge")]] ELSE regs
        r2 == IF c.b /\ ~\E jk \in AllLines(r1) : r1[jk[1]].lines[jk[2]].q = "long" THEN <<>> ELSE r1
    IN  SelectSeq(r2, LAMBDA r : r.lines # <<>>)

Simple(regs, n) == [j \in 1..Len(regs) |->
                      [regs[j] EXCEPT !.lines = @ \o [k \in 1..n |-> [id |-> LineId(regs[j].id, k, ""), rid |-> regs[j].id, q |-> "long"]]]]

HasLines(regs) == \E j \in 1..Len(regs) : regs[j].lines # <<>>
\* HEIGHTS_FROM_REGIONS: "discards all but the biggest line in the region" - which one is geometry, left open here
OneLineEach(regs) == {r2 \in [1..Len(regs) -> UNION {{[regs[j] EXCEPT !.lines = <<l>>] : l \in {regs[j].lines[k] : k \in 1..Len(regs[j].lines)}}
                                                      \cup {regs[j]} : j \in 1..Len(regs)}] :
                         \A j \in 1..Len(regs) : IF regs[j].lines = <<>> THEN r2[j] = regs[j]
                                                 ELSE \E k \in 1..Len(regs[j].lines) : r2[j] = [regs[j] EXCEPT !.lines = <<regs[j].lines[k]>>]}

Cur == chain[pos + 1]
Step == /\ outcome = "running" /\ pos < Len(chain)
        /\ pos' = pos + 1
        /\ fresh' = (fresh /\ ~(Cur.m = "SIMPLE" /\ ks > 0 /\ HasLines(page)))
        /\ CASE Cur.m = "WHOLE"  -> page' = <<[id |-> "r1", slot |-> All, lines |-> <<>>]>> /\ outcome' = outcome
             [] Cur.m = "CNN"    -> page' = Cnn(page, Cur, det) /\ outcome' = outcome
             [] Cur.m = "FILTER" -> page' = Filter(page, Cur) /\ outcome' = outcome
             [] Cur.m = "SIMPLE" -> page' = Simple(page, ks) /\ outcome' = outcome
             [] Cur.m = "LPOST" /\ Cur.v \in {"stretch", "resample"} -> UNCHANGED <<page, outcome>>
             [] Cur.m = "LPOST" /\ Cur.v = "hfr" ->
                    IF Legacy /\ HasLines(page) THEN outcome' = "NameError" /\ UNCHANGED page
                    ELSE page' \in OneLineEach(page) /\ outcome' = outcome
             [] Cur.m = "LPOST" /\ Cur.v = "max" ->
                    IF Legacy /\ HasLines(page) THEN outcome' = "TypeError" /\ UNCHANGED page
                    ELSE UNCHANGED <<page, outcome>>
             [] Cur.m = "LAYPOST" -> UNCHANGED <<page, outcome>>
        /\ UNCHANGED <<chain, det, ks>>
Done == /\ outcome = "running" /\ pos = Len(chain)
        /\ outcome' = "ok" /\ UNCHANGED <<chain, det, ks, page, pos, fresh>>
Next == Step \/ Done
Spec == Init /\ [][Next]_vars /\ WF_vars(Next)

\* ------------------------------------------- properties ---------------------------------------------
RegionIds == [j \in 1..Len(page) |-> page[j].id]
Injective(s) == \A a, b \in DOMAIN s : s[a] = s[b] => a = b
\* the stages never create two regions with one id (PAGE XML / ALTO ids must be unique in the document)
UniqueRegionIds == Injective(RegionIds)
LineIdAt(jk) == page[jk[1]].lines[jk[2]].id
UniqueLineIdsAlways == \A x, y \in AllLines(page) : LineIdAt(x) = LineIdAt(y) => x = y
\* ... nor two lines with one id, as long as the simple extractor is not asked to add lines to regions that already have some
UniqueLineIds == fresh => UniqueLineIdsAlways
\* every line sits in the region it was created for
LinesInOwnRegion == \A jk \in AllLines(page) : page[jk[1]].lines[jk[2]].rid = page[jk[1]].id
\* the line filter leaves no empty region behind and, with FILTER_INCOMPLETE_PAGES, no edge line
FilterPost == (pos > 0 /\ chain[pos].m = "FILTER" /\ outcome # "NameError" /\ outcome # "TypeError") =>
                 /\ \A j \in 1..Len(page) : page[j].lines # <<>>
                 /\ chain[pos].a => \A jk \in AllLines(page) : page[jk[1]].lines[jk[2]].q # "edge"
                 /\ (chain[pos].b /\ page # <<>>) => \E jk \in AllLines(page) : page[jk[1]].lines[jk[2]].q = "long"
WholePost == (pos > 0 /\ chain[pos].m = "WHOLE") => (Len(page) = 1 /\ page[1].id = "r1" /\ page[1].lines = <<>>)
\* region detection replaces the regions: one per polygon and orientation, in the order rot 0, 1, 3
CnnPost == (pos > 0 /\ chain[pos].m = "CNN" /\ chain[pos].a) =>
              /\ Len(page) = Len(det.polys) * Len(Orients(chain[pos]))
              /\ ~chain[pos].b => ~HasLines(page)
\* a stage that does not detect never adds or removes a region (only the filter removes)
OnlyDocumentedErrors == outcome \in {"running", "ok"}
TypeOK == pos \in 0..Len(chain) /\ outcome \in {"running", "ok", "NameError", "TypeError"}
Terminates == <>(outcome # "running")
\* structure-preserving stages: region list (ids, slots, order) untouched
PostprocKeepsRegions == [][(pos' = pos + 1 /\ Cur.m \in {"LPOST", "LAYPOST", "SIMPLE"}) =>
                              [j \in 1..Len(page') |-> <<page'[j].id, page'[j].slot>>] = [j \in 1..Len(page) |-> <<page[j].id, page[j].slot>>]]_vars
=============================================================================
