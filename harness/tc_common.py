"""C20 helper: random-weight TransformerOCR models with a stub front-end (torchvision weights cannot be downloaded), the
real TransformerEngineLineOCR.transcribe_batch loop on an engine object built with __new__, and the projection of a history
of calls to the integer trace format of spec/TransformerCache_Trace.tla.  Nothing here judges anything."""
import contextlib
import copy
import io
import signal

import numpy as np
import torch

from pero_ocr.ocr_engine import transformer
from pero_ocr.ocr_engine.transformer_ocr_engine import TransformerEngineLineOCR

H = 8
NCHARS = 4
SB = NCHARS            # sentence boundary index
IGN = NCHARS + 1       # ignore index
UNIT = 1e-7
BIG = 2000000000
CASE_TIMEOUT = 120

SHAPES = {
    "d16h2l2": dict(dim=16, heads=2, layers=2, ff=32),
    "d24h3l1": dict(dim=24, heads=3, layers=1, ff=48),
    "d32h4l3": dict(dim=32, heads=4, layers=3, ff=32),
    # a model configured for long lines: decoder max_seq_len 512 (> the 500 that the attention / decoder-layer constructors
    # default to), encoder positions for 520 frames
    "d8h1l1long": dict(dim=8, heads=1, layers=1, ff=8, msl=512, enc_msl=520),
}
# (boundary bias, ignore bias): lines finish early / late / hit the cap; ignore symbols appear
BIASES = [(0.0, 0.0), (1.2, 0.3), (-3.0, 0.8), (0.6, -3.0), (2.5, 0.0)]


class Front(torch.nn.Module):
    """stub encoder front-end: one 8x4 convolution with stride 8x4 -> [batch, dim, width / 4]"""

    def __init__(self, dim):
        super().__init__()
        self.conv = torch.nn.Conv2d(3, dim, kernel_size=(H, 4), stride=(H, 4))

    def forward(self, x):
        return self.conv(x).squeeze(2)


_MODELS = {}


def pristine(shape, bias_idx, seed):
    key = (shape, bias_idx, seed)
    if key not in _MODELS:
        s = SHAPES[shape]
        torch.manual_seed(1000 * seed + 17 * bias_idx + len(shape) + s["dim"])
        enc = transformer.LineSelfAttentionEncoder(dropout=0.0, max_seq_len=s.get("enc_msl", 64), dim_model=s["dim"], dim_ff=s["ff"],
                                                   nb_heads=s["heads"], nb_layers=1)
        net = transformer.TransformerOCR(Front(s["dim"]), enc, num_classes=NCHARS + 2, dropout=0.0, nb_layers=s["layers"],
                                         dim_model=s["dim"], dim_ff=s["ff"], max_seq_len=s.get("msl", 16), nb_heads=s["heads"])
        with torch.no_grad():
            # torch initialises the attention in-projection biases (and LayerNorm biases) to zero: a trained checkpoint does not
            # have zero biases, and a mix-up between two biases is invisible while both are zero - randomise every bias
            for name, prm in net.named_parameters():
                if name.endswith("bias"):
                    prm.add_(torch.empty_like(prm).uniform_(-0.4, 0.4))
            net.dec_out_proj.weight.mul_(3.0)
            net.dec_embeder.weight.mul_(1.5)
            b, g = BIASES[bias_idx]
            net.dec_out_proj.bias[SB] += b
            net.dec_out_proj.bias[IGN] += g
        net.eval()
        _MODELS[key] = net
    return _MODELS[key]


def engine_for(net):
    eng = TransformerEngineLineOCR.__new__(TransformerEngineLineOCR)
    eng.device = torch.device("cpu")
    eng.net = net
    eng.characters = [chr(97 + i) for i in range(NCHARS)] + [u"​", ""]
    eng.sentence_boundary_ind = SB
    eng.ignore_ind = IGN
    return eng


def _cache_state(dec):
    return [(l.self_attn.linear_cache, l.multihead_attn.linear_cache, l.memory_tgt) for l in dec.layers]


def _bsz(t):
    return 0 if t is None else int(t.shape[1])


def instrument(net, sink):
    """record, around every Decoder.infer call, whether the caches were re-allocated and their batch dimension
    (instance attribute on this model object only; the code under test is not touched)"""
    dec = net.trans_decoder
    orig = dec.infer

    def wrapped(tgt, memory, is_cached=False, return_attention=False):
        before = _cache_state(dec)
        out = orig(tgt, memory, is_cached=is_cached, return_attention=return_attention)
        after = _cache_state(dec)
        per_layer = []
        for b, a in zip(before, after):
            per_layer.append([int(a[0] is not b[0]), _bsz(a[0]), int(a[1] is not b[1]), _bsz(a[1]),
                              int(a[2] is not b[2]), _bsz(a[2])])
        sink.append({"obs": per_layer[0], "agree": int(all(p == per_layer[0] for p in per_layer))})
        return out

    dec.infer = wrapped


def _cls(i):
    return "b" if i == SB else ("i" if i == IGN else "c")


def _units(x):
    if not np.isfinite(x):
        return BIG
    return int(min(BIG, round(float(x) / UNIT)))


def _transcribe(eng, x, cached, keep=None):
    """keep: a list that receives the objects exactly as transcribe_batch handed them back (no copy) - what a caller such as
    process_lines holds on to while the engine goes on with the next batch"""
    with contextlib.redirect_stdout(io.StringIO()), torch.no_grad():
        outs, logits = eng.transcribe_batch(x.copy(), is_cached=cached)
    if keep is not None:
        keep.append((outs, logits))
    return [o.tolist() for o in outs], logits.detach().clone()


# image kinds of a batch (4th element of a history entry; absent = 0)
#   0 ordinary crops, uint8 values 0..255
#   1 every line is an (almost) black crop: values 0 / 1, not all zero (dark binarised scan, a few noise pixels)
#   2 mixed: even lines dark as in 1, odd lines ordinary
#   3 flat lines: every line has one constant value out of 0 / 1 / 255 (blank padding, saturated page)
def images(rng, n, e, kind):
    x = rng.randint(0, 256, (n, 3, H, 4 * e)).astype(np.uint8)       # kind 0: the same stream as before kinds existed
    if kind in (1, 2):
        dark = rng.randint(0, 2, (n, 3, H, 4 * e)).astype(np.uint8)
        dark[:, 0, 0, 0] = 1
        for i in range(n):
            if kind == 1 or i % 2 == 0:
                x[i] = dark[i]
    elif kind == 3:
        vals = rng.randint(0, 3, n)
        for i in range(n):
            x[i] = (0, 1, 255)[int(vals[i])]
    return x


def _margin(logits):
    top = torch.topk(logits, 2, dim=-1).values
    return float((top[..., 0] - top[..., 1]).min())


def _maxdiff(a, b):
    """max |a - b| over the common leading steps (dim 1)"""
    s = min(a.shape[1], b.shape[1])
    if s == 0 or a.shape[0] != b.shape[0] or a.shape[2] != b.shape[2]:
        return float("inf")
    return float((a[:, :s] - b[:, :s]).abs().max())


class CaseTimeout(Exception):
    pass


def _alarm(signum, frame):
    raise CaseTimeout()


def run_history(case):
    """case: {"shape": name, "bias": idx, "seed": int, "batches": [[n, e, cached] or [n, e, cached, kind], ...]}"""
    base = pristine(case["shape"], case["bias"], case["seed"])
    net = copy.deepcopy(base)
    sink = []
    instrument(net, sink)
    eng = engine_for(net)
    rng = np.random.RandomState(case["seed"] * 7919 + 13)
    tr = {"batches": []}
    held = []        # per completed call: what the caller was handed (kept, not copied) and the references computed at once
    old = signal.signal(signal.SIGALRM, _alarm)
    try:
        for entry in case["batches"]:
            n, e, cached = entry[:3]
            kind = entry[3] if len(entry) > 3 else 0
            x = images(rng, n, e, kind)
            b = {"n": n, "e": e, "cached": int(bool(cached)), "kind": kind, "outcome": "ok", "S": 0, "syms": [], "res": [], "obs": [],
                 "layers_agree": 1, "d_unc": BIG, "d_tf": BIG, "d_alone": BIG, "margin": 0, "eq_unc": 0, "eq_alone": 0,
                 "d_late": BIG, "eq_late": 0}
            tr["batches"].append(b)
            del sink[:]
            signal.alarm(CASE_TIMEOUT)
            try:
                keep = []
                o1, l1 = _transcribe(eng, x, bool(cached), keep)
                steps = l1.shape[1]
                arg = torch.argmax(l1, dim=-1)
                b["S"] = int(steps)
                b["syms"] = [[_cls(int(v)) for v in row] for row in arg]
                b["res"] = [[_cls(int(v)) for v in o] for o in o1]
                b["obs"] = [s["obs"] for s in sink]
                b["layers_agree"] = int(all(s["agree"] for s in sink) and len(sink) == steps)
                # wide batches: the transcriptions of four sampled lines are compared with the lines decoded alone; the margin that
                # licenses that comparison is taken over those lines (over 256 lines some near-tie is almost certain)
                rows = list(range(n)) if n <= 16 else [0, 1, n // 2, n - 1]
                margins = [_margin(l1[rows])]
                # (a) uncached decoding on a pristine copy
                o2, l2 = _transcribe(engine_for(copy.deepcopy(base)), x, False)
                b["d_unc"] = _units(_maxdiff(l1, l2))
                b["eq_unc"] = int([o1[i] for i in rows] == [o2[i] for i in rows] and l1.shape == l2.shape)
                margins.append(_margin(l2[rows]))
                # (b) teacher-forced masked forward pass over the emitted symbols (stateless path of the same weights)
                labels = torch.cat([torch.full((n, 1), SB, dtype=torch.long), arg[:, :-1]], dim=1)
                with torch.no_grad():
                    full = copy.deepcopy(base)(torch.from_numpy(x).float() / 255.0, labels)      # [S, n, C]
                b["d_tf"] = _units(_maxdiff(l1, full.permute(1, 0, 2)))
                # (c) every line alone on a pristine copy (cached decoding)
                d_alone, eq_alone = 0.0, True
                for i in rows:       # wide batches: four of the lines alone
                    o3, l3 = _transcribe(engine_for(copy.deepcopy(base)), x[i:i + 1], True)
                    d_alone = max(d_alone, _maxdiff(l1[i:i + 1], l3))
                    eq_alone = eq_alone and (o3[0] == o1[i])
                    margins.append(_margin(l3))
                b["d_alone"] = _units(d_alone)
                b["eq_alone"] = int(eq_alone)
                b["margin"] = _units(min(margins))
                held.append((b, keep[0], o1, l1, l2, full.permute(1, 0, 2)))
            except CaseTimeout:
                b["outcome"] = "timeout"
                break
            except Exception as ex:          # part of the observation
                b["outcome"] = "exception:" + type(ex).__name__
                break
            finally:
                signal.alarm(0)
    finally:
        signal.alarm(0)
        signal.signal(signal.SIGALRM, old)
    # a result handed back to the caller stays that result: only now, after the whole session has been decoded on this engine,
    # the objects returned by each call are compared with the recomputation and the teacher-forced pass obtained right after it
    for b, (outs, logits), o1, l1, l2, full in held:
        try:
            with torch.no_grad():
                b["d_late"] = _units(max(_maxdiff(logits, l2), _maxdiff(logits, full)))
            b["eq_late"] = int([o.tolist() for o in outs] == o1 and tuple(logits.shape) == tuple(l1.shape))
        except Exception:              # the kept object is no longer usable: recorded as a difference
            b["d_late"], b["eq_late"] = BIG, 0
    return tr
