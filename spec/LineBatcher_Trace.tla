------------------------- MODULE LineBatcher_Trace -------------------------
(* Trace layer for LineBatcher (C07).  A recorded execution of the real BaseEngineLineOCR.process_lines, driven
   through the provenance stub engine of harness/lb_common.py, consists of
     w, bs, mode   the widths in input order, the batch size and the flags sparse / tight / nolog (0 or 1)
     batches       one entry per run_ocr call as the stub saw it: fed = row width, rows = for every row the image tag,
                   first own column, placement and number of visible columns decoded from the pixels,
                   ids = the image tags in row order
     res           per input position: the coordinates returned, the number of logit frames, the frames inside the
                   window run-length encoded as <<g0, g1, img, d, nz, k4, k5>> (frames g0..g1 of the returned matrix
                   come from image img, first own column of the receptive field = d + Sub * g, nz visible columns,
                   k4 / k5 = weights recovered from the two low-posterior classes, 0 = stored as zero), the
                   transcription as runs <<k0, k1, img, d>>, a digest of the in-window result and the digest of the
                   same image recognised alone (a second real execution).
   Strict = FALSE is the property-level acceptance: any batch composition is admitted (BatchWith with the recorded ids
   and row width), the results must be each line's own (tags, window, per-frame content, keep-set, digest).
   Strict = TRUE additionally demands the batch composition, row placement and window splitting of the design
   (Batch action); the driver reports a trace that is accepted only with Strict = FALSE as MODEL-DRIFT.

   kind = "lb" is the execution described above.  kind = "pt" is one process_lines call of the real PytorchEngineLineOCR
   (its own run_ocr and greedy CTC decoding into the engine's characters) around a TorchScript stub network whose frame f
   is a function of the columns Sub*f .. Sub*f+Sub-1 of its own row: alpha / nsym = the engine's alphabet (characters
   PtSym(alpha, k), k < nsym), res = per input position the transcription as character codes (txt), the window and the
   arg-max class of every returned frame inside it (amax, counted from frame a0).  The network input is not recorded
   for this kind; the clause PtLineOK is the statement itself: the line's own result, in the asked engine's own alphabet.
   Both kinds are also recorded from SESSIONS (harness/lb_common.py run_session): several calls on long-lived engine
   objects of one process, other engines and a failing call in between, list objects handed in again.  The history is
   deliberately NOT an input of any clause here - a result may depend on the image (and the engine asked) only - so a
   trace from the n-th call of a session is judged exactly like a call on a fresh engine; TLC does not enumerate
   histories, the driver samples them.                                                                        *)
EXTENDS LineBatcher, TraceKit
CONSTANT Strict
VARIABLES tid, checked

Tr == Traces[tid]
Md == Tr.mode

TInit == /\ tid \in 1..NTraces
         /\ w = Traces[tid].w /\ bs = Traces[tid].bs
         /\ pending = SortedIds(w)
         /\ out = [i \in 1..Len(w) |-> None]
         /\ batches = <<>>
         /\ checked = 0

RowEq(a, b) == a.tag = b.tag /\ a.src = b.src /\ a.place = b.place /\ a.n = b.n
TBatch == /\ Tr.outcome = "ok" /\ checked = 0 /\ Len(batches) < Len(Tr.batches)
          /\ LET e == Tr.batches[Len(batches) + 1]
             IN /\ e.ids # <<>> /\ e.fed >= 1
                /\ \A j \in 1..Len(e.ids) : e.ids[j] \in 1..Len(w)
                /\ \A j, k \in 1..Len(e.ids) : j # k => e.ids[j] # e.ids[k]
                /\ BatchWith(e.ids, e.fed)
                /\ Strict => /\ pending # <<>> /\ e.ids = DesignIds /\ e.fed = DesignFed
                             /\ LET rs == batches'[Len(batches')].rows
                                IN /\ Len(e.rows) = Len(rs)
                                   /\ \A k \in 1..Len(rs) : RowEq(e.rows[k], rs[k])
          /\ UNCHANGED <<tid, checked>>

\* runs <<a, b, ...>> tile the index range from .. to-1 in order
RunsTile(runs, from, to) ==
    IF to <= from THEN runs = <<>>
    ELSE /\ runs # <<>> /\ runs[1][1] = from /\ runs[Len(runs)][2] = to - 1
         /\ \A j \in 1..Len(runs) : runs[j][1] <= runs[j][2]
         /\ \A j \in 1..(Len(runs) - 1) : runs[j + 1][1] = runs[j][2] + 1

SmallOK(obs, wt, sum) == IF Md.sparse = 1 THEN KeptOK(obs, wt, sum) ELSE obs = wt

\* ---- CTC engines ------------------------------------------------------------------------------------------
\* run r describes returned frame g, which is network frame f of the row
FrameMatch(row, f, g, r) ==
    LET fo == FrameOut(row, f)
        sum == WSum(fo)
    IN /\ r[3] = fo[1] /\ r[4] = fo[2] - Sub * g /\ r[5] = fo[3]
       /\ SmallOK(r[6], S4(fo[1]), sum) /\ SmallOK(r[7], S5(fo[1]), sum)
LogitsMatch(row, runs, shift) == \A j \in 1..Len(runs) : \A g \in runs[j][1]..runs[j][2] : FrameMatch(row, g + shift, g, runs[j])
TextMatch(row, r) ==
    LET n == TextCount(row)          \* closed form of TextFrames(row), proved equal by TLC on the design (TextFramesClosed)
        f0 == TextF0(row)
    IN /\ r.tlen = n /\ RunsTile(r.truns, 0, n)
       /\ \A j \in 1..Len(r.truns) : \A k \in r.truns[j][1]..r.truns[j][2] :
             LET fo == FrameOut(row, f0 + k)
             IN r.truns[j][3] = fo[1] /\ fo[2] % 2048 = (r.truns[j][4] + Sub * k) % 2048
CtcLineOK(i) ==
    LET r == Tr.res[i]
        row == out[i].rows[1]
        nt == Pad + w[i] <= row.fed
        eLo == Pad \div Sub
        eHi == (Pad + w[i]) \div Sub
    IN /\ out[i].rows # <<>>
       /\ TextMatch(row, r)
       /\ FullPad(i) => r.dig = r.ref      \* digest covers the transcription: compared when the row was not cropped
       /\ IF Md.nolog = 1 THEN r.cs = 0 /\ r.lk = 0
          ELSE /\ r.lk = 1
               /\ IF Md.tight = 1
                  THEN /\ r.cs = 1
                       /\ nt => r.frames = eHi - eLo
                       /\ RunsTile(r.lruns, 0, r.frames)
                       /\ LogitsMatch(row, r.lruns, eLo)
                  ELSE /\ r.cs = 2
                       /\ nt => (r.lo = eLo /\ r.hi = eHi /\ r.hi <= r.frames)
                       /\ r.lo >= 0
                       /\ RunsTile(r.lruns, r.lo, MinOf(r.hi, r.frames))
                       /\ LogitsMatch(row, r.lruns, 0)

\* ---- transformer engine: per symbol k of the merged result, image tag and block number b = d + k ----------------
TWA == 29990
TS4(img) == CASE img % 4 = 0 -> 6 [] img % 4 = 1 -> 5 [] img % 4 = 2 -> 7 [] OTHER -> 6
TS5(img) == CASE img % 4 = 0 -> 2 [] img % 4 = 1 -> 6 [] img % 4 = 2 -> 3000 [] OTHER -> 7
TrfLineOK(i) ==
    LET r == Tr.res[i]
        nblk == (w[i] - 1) \div Blk + 1
    IN /\ out[i].rows # <<>>
       /\ RunsTile(r.truns, 0, r.tlen)
       /\ \A j \in 1..Len(r.truns) : r.truns[j][3] = i
       /\ r.dig = r.ref
       /\ Strict => (r.tlen = nblk /\ r.truns = <<<<0, nblk - 1, i, 0>>>>)
       /\ IF Md.nolog = 1 THEN r.cs = 0 /\ r.lk = 0
          ELSE /\ r.lk = 1 /\ r.cs = 2 /\ r.lo = 0 /\ r.hi = r.tlen /\ r.hi <= r.frames
               /\ RunsTile(r.lruns, 0, r.hi)
               /\ \A j \in 1..Len(r.lruns) :
                     LET run == r.lruns[j]
                     IN /\ run[3] = i
                        /\ \A g \in run[1]..run[2] :
                              LET b == run[4] + g
                                  sum == 2 * TWA + i + b + TS4(i) + TS5(i)
                              IN b >= 0 /\ SmallOK(run[6], TS4(i), sum) /\ SmallOK(run[7], TS5(i), sum)
               /\ Strict => (r.frames = nblk /\ \A j \in 1..Len(r.lruns) : r.lruns[j][4] = 0)

\* ---- kind "pt": the real PytorchEngineLineOCR around a stub network ---------------------------------------------------
IsPt == Tr.kind = "pt"
IsWide == IsPt /\ Tr.wide = 1                \* round 8: stub network with frames of a wide dynamic range (see SpLineOK)
PtSym(a, k) == 2048 * a + k                 \* character code (relative to lb_common.ABASE) of symbol k of alphabet a
\* the columns of line i that the network can see: the crop starts at column Pad of its row and rows are at most 480 * bs wide
\* (lines beyond the engine maximum are truncated there); to the right of the line there is padding only
PtVis(i) == MinOf(w[i], 480 * bs - Pad)
\* class of network frame f of the row holding line i alone: nsym (blank) where the frame sees padding only
PtLab(i, f) == LET lo == MaxOf(Sub * f, Pad)
                   hi == MinOf(Sub * f + Sub, Pad + PtVis(i))            \* exclusive
               IN IF hi <= lo THEN Tr.nsym
                  ELSE (577 * i + 37 * ((hi - Pad - 1) \div 8)) % Tr.nsym
\* greedy CTC decoding of frames f .. nf-1 (prev = class of frame f-1): a symbol per run of equal non-blank classes, as
\* characters of the engine's own alphabet
RECURSIVE PtDecode(_, _, _, _)
PtDecode(i, f, prev, nf) ==
    IF f >= nf THEN <<>>
    ELSE LET c == PtLab(i, f)
         IN (IF c # prev /\ c # Tr.nsym THEN <<PtSym(Tr.alpha, c)>> ELSE <<>>) \o PtDecode(i, f + 1, c, nf)
PtText(i) == PtDecode(i, 0, Tr.nsym, (Pad + PtVis(i)) \div Sub + 1)
PtLineOK(i) ==
    LET r == Tr.res[i]
        nt == Pad + w[i] <= 480 * bs
        eLo == Pad \div Sub
        eHi == (Pad + w[i]) \div Sub
        exp == PtText(i)
    IN /\ r.tlen = Len(exp) /\ Len(r.txt) = Len(exp)
       /\ \A k \in 1..Len(exp) : r.txt[k] = exp[k]
       /\ IF Md.nolog = 1 THEN r.cs = 0 /\ r.lk = 0
          ELSE /\ r.lk = 1
               /\ IF Md.tight = 1
                  THEN /\ r.cs = 1 /\ r.a0 = 0
                       /\ nt => r.frames = eHi - eLo
                       /\ Len(r.amax) = r.frames
                       /\ \A k \in 1..Len(r.amax) : IF IsWide THEN TRUE ELSE r.amax[k] = PtLab(i, eLo + k - 1)
                  ELSE /\ r.cs = 2
                       /\ nt => (r.lo = eLo /\ r.hi = eHi /\ r.hi <= r.frames)
                       /\ r.lo >= 0 /\ r.a0 = r.lo
                       /\ Len(r.amax) = MaxOf(MinOf(r.hi, r.frames) - r.lo, 0)
                       /\ \A k \in 1..Len(r.amax) : IF IsWide THEN TRUE ELSE r.amax[k] = PtLab(i, r.a0 + k - 1)

\* ---- kind "pt", wide = 1: the same engine around a stub network whose frames have a WIDE DYNAMIC RANGE (round 8) -----------
\* Tr.pats = the network's frame patterns [off, ds, fl] (its parameters, recorded as input): the frame whose arg-max class
\* is cls emits the integer logits  off - D,  D = 0 for cls, ds[j] for class (cls + j) % C (j = 1..Len(ds)), fl for all other
\* classes (spreads of 60 / 100 / 800, common offsets of +-10^4, several classes within ln(10^4) of the top).  The pattern
\* of a frame is a function of the row's own pixels: pattern 1 where the frame sees padding only, else chosen by the last
\* own column in the frame and the image tag.  The arg-max class of the network output stays PtLab, so the text clause of
\* PtLineOK applies unchanged (its amax clause is replaced: the arg-max of a SPARSE matrix of negative logits is meaningless); res[i].sp =
\* the stored values of every class at every returned frame inside the window (0 = not stored), judged by SpStoredOK of the
\* design module: "sparse storage keeps every logit whose posterior is at least 1e-4 unchanged and nothing else".
SpC == Tr.nsym + 1
SpInf == 8000000             \* lb_common.SPINF
SpBadVal == 1073741823       \* lb_common.BADVAL = 2^30 - 1
SpPat(i, f) == LET lo == MaxOf(Sub * f, Pad)
                   hi == MinOf(Sub * f + Sub, Pad + PtVis(i))            \* exclusive
               IN IF hi <= lo THEN 1 ELSE 2 + (((hi - Pad - 1) \div Sub + i) % (Len(Tr.pats) - 1))
SpDist(p, j) == IF j = 0 THEN 0 ELSE IF j <= Len(p.ds) THEN p.ds[j] ELSE p.fl
SpFrameOK(i, f, row) ==
    LET p == Tr.pats[SpPat(i, f)]
        cls == PtLab(i, f)
        s8 == SpSum8(p.ds, p.fl, SpC)
    IN /\ Len(row) = SpC
       /\ \A c \in 0..(SpC - 1) :
             LET D == SpDist(p, (c - cls + SpC) % SpC)
                 \* D = SpInf (round 9): the class carries the logit -inf (a zero posterior).  Sparse storage must not store anything for it
                 \* (SpStoredOK: D >= 10 must be dropped; -inf * 0 = nan would be recorded as SpBadVal); dense modes return -inf itself,
                 \* which the recorder projects to SpBadVal (lb_common._stored: anything that is not a finite integer)
             IN IF Md.sparse = 1 THEN SpStoredOK(row[c + 1], p.off - D, D, s8)
                ELSE row[c + 1] = (IF D = SpInf THEN SpBadVal ELSE p.off - D)
SpLineOK(i) ==
    LET r == Tr.res[i]
        f0 == IF Md.tight = 1 THEN Pad \div Sub ELSE r.a0
    IN /\ SpC <= SpMaxC /\ Len(Tr.pats) >= 2
       \* (IF, not \/: TLC splits an action on every disjunction, true disjuncts multiply the successor computations)
       /\ IF Md.nolog = 1 THEN TRUE
          ELSE /\ Len(r.sp) = Len(r.amax)
               /\ \A k \in 1..Len(r.sp) : SpFrameOK(i, f0 + k - 1, r.sp[k])

LineOK(i) == IF IsPt THEN PtLineOK(i) /\ (IF IsWide THEN SpLineOK(i) ELSE TRUE) ELSE IF Transformer THEN TrfLineOK(i) ELSE CtcLineOK(i)

Consumed == /\ Tr.outcome = "ok" /\ Len(batches) = Len(Tr.batches) /\ Len(Tr.res) = Len(w)
            /\ IsPt \/ pending = <<>>
TCheck == /\ Consumed /\ checked < Len(w)
          /\ LineOK(checked + 1)
          /\ checked' = checked + 1
          /\ UNCHANGED <<tid, w, bs, pending, out, batches>>

\* aliased input lists (the SAME array object at several positions): the trace is recorded for the list of distinct objects
\* (w, res, batches with repeated rows dropped); every further position holding an already listed object must have received
\* the result of that object (Tr.alias[k].res = the projection recorded for that position)
\* compared: window, presence of logits and the per-frame content inside the window (what the statement promises); the number
\* of padding frames and the text just outside a cropped row legitimately depend on the batch the copy happened to land in
AliasOK == \A k \in 1..Len(Tr.alias) :
              /\ Tr.alias[k].src \in 1..Len(Tr.res)
              /\ LET a == Tr.alias[k].res
                     r == Tr.res[Tr.alias[k].src]
                 IN a.cs = r.cs /\ a.lo = r.lo /\ a.hi = r.hi /\ a.lk = r.lk /\ a.lruns = r.lruns /\ a.tlen # 9999

TNext == TBatch \/ TCheck
TAccept == TKMark(tid, Len(batches) + checked, Consumed /\ checked = Len(w) /\ AliasOK)
TPost == TKPost
ASSUME TKReset
=============================================================================
