"""C07 - batched line recognition returns each line's own result in input order (DESIGN.md section 4, C07).

1. TLC proves on spec/LineBatcher.tla (one Batch action per iteration of the loop in BaseEngineLineOCR.process_lines,
   real constants 32 px / 480 * batch size / round-up to 32 / crop to the budget / transformer windows with 25 % overlap),
   for every list of widths and batch size of the bounds below: own result, every index written exactly once, window =
   [32 div 4, (32 + w) div 4] = exactly the frames lying inside the line, per-frame output inside the window equal to
   the output for the image alone (independence from order, batch mates and batch size), termination.  Named defective
   variants (scatter by batch position, window without padding offset, image placed at column 0, no max(1, ...)) must
   each violate an invariant: the model is sharp.
2. Every width list / batch size of the same bounds is executed by the real process_lines through a provenance stub
   engine (harness/lb_common.py) in the mode combinations sparse/dense x tight/loose x no-logits; each execution (the
   batches the network saw, and per input position the window, the per-frame provenance, the kept logits, the
   transcription, a digest compared with the same image recognised alone) is validated by TLC against LineBatcher_Trace.
   Strict = TRUE (design conformance) first; what is rejected there is re-validated with Strict = FALSE (property-level
   acceptance): rejected again = VIOLATION, accepted = MODEL-DRIFT.
3. History (sessions(), harness/lb_common.py run_session): the statement makes a result a function of the image at that
   position (and of the engine asked), so nothing done before may show in it.  A session is a sequence of process_lines
   calls in ONE process on long-lived engine objects - the provenance stub engine (a narrower list after a wider one of the
   same batch shapes, a call that fails half-way in between, a list object handed in again) and several real
   PytorchEngineLineOCR objects around a TorchScript stub network (alphabets of equal and of different size, one of more
   than 1024 symbols, one alphabet shared by two engines, engines asked alternately).  Every call is one trace of
   LineBatcher_Trace (kinds "lb" / "pt"); the history is no input of any clause there.
4. Dynamic range (round 8; WIDE_PATS, wide_sessions): real PytorchEngineLineOCR objects around a stub network whose frames have the
   logit spreads of a real network (60 / 100 / 800, common offsets of +-10^4, several classes within ln(10^4) of the top).  The
   stored value of every class at every frame inside the window is recorded; TLC decides the keep-set from the network's integer
   logits (LineBatcher!SpStoredOK, fixed-point e^-d table, 2 % band) - "sparse storage keeps every logit whose posterior is at
   least 1e-4 unchanged and nothing else"; dense modes must return the logits themselves.
"""
import itertools

from .. import lb_common as L
from ..core import pmap

LEVEL = "model_checking"

CTC_WIDTHS = [1, 32, 33, 448, 481, 500, 3841, 8000]     # 481 and 500 share a 32-px bucket and fill a batch each: consecutive batches of the same shape, different extent
CTC_WIDTHS_T = [1, 4, 31, 32, 33, 63, 448, 449, 481, 3841, 7616, 8000]
TRF_WIDTHS = [1, 16, 64, 65, 112, 113, 160, 200]
MODES = {"sparse": {"sparse": 1, "tight": 0, "nolog": 0}, "dense-tight": {"sparse": 0, "tight": 1, "nolog": 0},
         "sparse-tight": {"sparse": 1, "tight": 1, "nolog": 0}, "dense": {"sparse": 0, "tight": 0, "nolog": 0},
         "nolog": {"sparse": 1, "tight": 0, "nolog": 1}}
INVS = ["OwnResult", "WrittenOnce", "WindowOK", "WindowIsExtent", "Independent", "BatchWithinBudget", "SpansConsistent",
        "PartsCover", "TextFramesClosed", "TextOwn"]


def bounds(tier):
    """one dict of bounds drives both the TLC constants and the executed cases"""
    if tier == "quick":
        return [
            {"name": "ctc", "widths": CTC_WIDTHS, "maxlines": 3, "bs": [1, 2, 16], "transformer": False, "mlw": None,
             "modes": ["sparse", "dense-tight", "nolog"], "fraction": 1.0},
            {"name": "transformer", "widths": TRF_WIDTHS, "maxlines": 3, "bs": [1, 2], "transformer": True, "mlw": 64,
             "modes": ["sparse", "dense"], "fraction": 1.0},
        ]
    return [
        {"name": "ctc", "widths": CTC_WIDTHS, "maxlines": 3, "bs": [1, 2, 3, 8, 16], "transformer": False, "mlw": None,
         "modes": ["sparse", "dense-tight", "sparse-tight", "dense", "nolog"], "fraction": 1.0},
        {"name": "ctc-12-widths", "widths": CTC_WIDTHS_T, "maxlines": 3, "bs": [1, 2, 5, 16], "transformer": False, "mlw": None,
         "modes": ["sparse", "dense-tight", "sparse-tight", "dense", "nolog"], "fraction": 0.2},
        {"name": "ctc-4-lines", "widths": [1, 33, 448, 481, 3841, 8000], "maxlines": 4, "bs": [1, 2, 8, 16], "transformer": False,
         "mlw": None, "modes": ["sparse", "dense-tight", "nolog"], "fraction": 0.25},
        {"name": "transformer", "widths": TRF_WIDTHS, "maxlines": 3, "bs": [1, 2, 3], "transformer": True, "mlw": 64,
         "modes": ["sparse", "dense", "nolog"], "fraction": 1.0},
        {"name": "transformer-128", "widths": [1, 100, 128, 129, 224, 225, 300], "maxlines": 3, "bs": [1, 2], "transformer": True,
         "mlw": 128, "modes": ["sparse", "dense"], "fraction": 1.0},
    ]


def constants(b, pad=32, variant="ok", **over):
    c = {"Widths": set(b["widths"]), "MaxLines": b["maxlines"], "BatchSizes": set(b["bs"]), "Pad": pad, "Sub": L.SUB,
         "Transformer": bool(b["transformer"]), "MLW": b["mlw"] or 0, "Variant": variant}
    c.update(over)
    return c


def cases_of(ctx, b):
    out = []
    for n in range(b["maxlines"] + 1):
        for ws in itertools.product(b["widths"], repeat=n):
            for bs in b["bs"]:
                for m in b["modes"]:
                    out.append({"w": list(ws), "bs": bs, "mode": dict(MODES[m]), "transformer": b["transformer"],
                                "mlw": b["mlw"], "route": "engine", "bounds": b["name"]})
                if n >= 2 and not b["transformer"] and bs == b["bs"][0]:
                    out.append({"w": list(ws), "bs": bs, "mode": dict(MODES["sparse"]), "transformer": False, "mlw": None,
                                "route": "page", "bounds": b["name"]})
    if b["fraction"] < 1.0:
        out = ctx.rng.sample(out, max(1, int(len(out) * b["fraction"])))
    return out


def alias_cases(b):
    """lists in which the same array object stands at several positions (e.g. one blank crop used for every empty line)"""
    if b["transformer"]:
        return []
    out = []
    ws = [x for x in (33, 448, 500, 1) if x in b["widths"]][:3]
    for w0 in ws:
        for bs in b["bs"][:2]:
            out.append({"w": [w0], "alias": [0, 0], "bs": bs, "mode": dict(MODES["sparse"]), "transformer": False, "mlw": None,
                        "route": "engine", "bounds": b["name"]})
            out.append({"w": [w0], "alias": [0, 0, 0], "bs": bs, "mode": dict(MODES["dense-tight"]), "transformer": False, "mlw": None,
                        "route": "engine", "bounds": b["name"]})
            for w1 in ws:
                if w1 != w0:
                    for al in ([0, 1, 0], [1, 0, 0], [0, 1, 1, 0]):
                        out.append({"w": [w0, w1], "alias": al, "bs": bs, "mode": dict(MODES["sparse"]), "transformer": False,
                                    "mlw": None, "route": "engine" if len(al) == 3 else "page", "bounds": b["name"]})
    return out


def judge_alias(ctx, b, cases, traces, pad):
    """aliased lists are judged at property level only (the design models lists of distinct objects)"""
    if not cases:
        return
    loose = constants(b, pad=pad, Strict=False)
    acc, rej = ctx.validate("LineBatcher_Trace", traces, constants=loose, label="LineBatcher_Trace %s aliased lists" % b["name"])
    for c in cases:
        ctx.count(1, (b["name"], "alias", tuple(c["w"]), tuple(c["alias"]), c["bs"]))
    for i, prog in rej:
        kind, what = _describe(traces[i], prog)
        if kind == "unfinished":
            kind, what = "alias", "a position holding an object that also stands elsewhere in the list did not receive that object's result"
        ctx.violation({"bounds": b, "case": cases[i], "pad": pad, "trace": _short(traces[i]), "progress": prog}, "ctc:" + kind,
                      "%s; widths %s positions->objects %s batch size %d" % (what, cases[i]["w"], cases[i]["alias"], cases[i]["bs"]))


# ------------------------------------------------------------------------------------------------ history
PT_WIDTHS = [1, 3, 8, 9, 33, 120, 448, 500]      # 500 is beyond the engine maximum of a batch-size-1 engine (truncated at 480)
PT_ENGINES = [{"type": "pt", "bs": 2, "alpha": 1, "nsym": 10}, {"type": "pt", "bs": 1, "alpha": 2, "nsym": 10},
              {"type": "pt", "bs": 16, "alpha": 3, "nsym": 1300}, {"type": "pt", "bs": 3, "alpha": 4, "nsym": 10},
              {"type": "pt", "bs": 16, "alpha": 1, "nsym": 10}, {"type": "pt", "bs": 2, "alpha": 5, "nsym": 7},
              {"type": "pt", "bs": 2, "alpha": 6, "nsym": 1300}]
LB_ENGINES = [{"type": "lb", "bs": 1}, {"type": "lb", "bs": 2}, {"type": "lb", "bs": 16}]


# round 8: frames with the dynamic range of a real network (patterns [off, ds, fl] of lb_common._pt_network_wide: the top logit is
# off, the classes next to it lie ds[j] below, all others fl below).  Spreads of 60 / 100 / 800 (float32 exp overflows beyond 88.7,
# float64 beyond 709), common offsets of +-10^4 and +-300, several classes within ln(10^4) = 9.21 of the top (the sum of the
# posterior's denominator decides whether a class 8 or 9 below the top is kept), classes just beyond (10, 11, 12).
WIDE_PATS = [
    {"off": 2, "ds": [3], "fl": 20},                       # frames that see padding only
    {"off": 3, "ds": [5, 63, 91, 9], "fl": 60},            # top 3, then -2, -60, -88, -6: one very unlikely class
    {"off": -4, "ds": [2, 9], "fl": 100},
    {"off": 0, "ds": [1, 1, 1, 2, 9], "fl": 800},          # four classes close to the top: the one 9 below is NOT kept
    {"off": 10000, "ds": [4, 8], "fl": 30},
    {"off": -10000, "ds": [3, 7, 12], "fl": 25},
    {"off": 300, "ds": [1, 1, 1, 1, 1, 1], "fl": 9},       # six classes 1 below the top: everything 9 below is dropped
    {"off": -300, "ds": [9], "fl": 60},                    # alone next to the top: 9 below is kept
    {"off": 7, "ds": [6, 7, 8], "fl": 120},
    {"off": 5, "ds": [10, 11], "fl": 88},
    {"off": -7, "ds": [2, 60, 100, 800], "fl": 400},
    {"off": 11, "ds": [8, 8, 8, 8], "fl": 70},
    {"off": 9000, "ds": [1, 9, 30], "fl": 95},
    # round 9: log-posteriors of classes with a ZERO posterior are -inf (masked outputs, log of a hard zero): nothing may be stored
    # for them (a product like -inf * 0 is nan) and the kept logits next to them stay exact
    {"off": 3, "ds": [2, 6, 9], "fl": L.SPINF},
    {"off": -2, "ds": [1], "fl": L.SPINF},
]
WIDE_ENGINES = [{"type": "pt", "bs": 2, "alpha": 1, "nsym": 10, "pats": WIDE_PATS}, {"type": "pt", "bs": 1, "alpha": 2, "nsym": 7, "pats": WIDE_PATS},
                {"type": "pt", "bs": 16, "alpha": 3, "nsym": 10, "pats": WIDE_PATS}]


def random_pats(rng, nsym, n=14):
    out = [{"off": rng.choice([0, 2, -3]), "ds": [rng.randint(1, 6)], "fl": rng.choice([15, 20, 40])}]
    for _ in range(n - 1):
        m = rng.randint(1, min(6, nsym - 1))
        ds = [rng.choice([1, 1, 2, 3, 5, 6, 7, 8, 9, 9, 10, 11, 12, 30, 60, 87, 90, 100, 700, 800]) for _ in range(m)]
        out.append({"off": rng.choice([0, 1, -1, 6, -13, 300, -300, 800, -800, 10000, -10000, 100000, -100000]), "ds": ds,
                    "fl": rng.choice([9, 10, 14, 30, 60, 89, 100, 120, 710, 800, 5000])})
    return out


def wide_sessions(ctx, quick=True):
    M = lambda name: dict(MODES[name])
    C = lambda e, w, m="sparse", fail=0: {"e": e, "w": list(w), "mode": M(m), "fail": fail}
    out = [{"engines": WIDE_ENGINES, "calls": [C(0, [33, 120, 9]), C(0, [33, 120, 9], "dense"), C(1, [448, 1, 33]), C(1, [500], "sparse-tight"),
                                                C(2, [120, 120, 57, 8]), C(0, [57, 3], "sparse-tight"), C(2, [448, 33], "dense-tight"),
                                                C(1, [120, 9], "nolog"), C(0, [9, 120, 33], fail=1)]}]
    for k in range(0 if quick else 6):
        engs = [{"type": "pt", "bs": bs, "alpha": 1 + j, "nsym": ns, "pats": random_pats(ctx.rng, ns)}
                for j, (bs, ns) in enumerate([(2, 10), (1, 7), (16, 15), (3, 4)])]
        calls = []
        for _ in range(ctx.rng.randint(4, 7)):
            n = ctx.rng.choice([1, 2, 3, 3, 4])
            calls.append(C(ctx.rng.randrange(len(engs)), [ctx.rng.choice([1, 3, 8, 9, 33, 57, 120, 200, 448, 500]) for _ in range(n)],
                           ctx.rng.choice(["sparse", "sparse", "sparse-tight", "dense", "dense-tight"]), fail=int(ctx.rng.random() < 0.15)))
        out.append({"engines": engs, "calls": calls})
    return out


def sessions(ctx, b, quick=True):
    """sequences of calls on long-lived engines; widths of the "lb" calls come from the bounds entry b"""
    M = lambda name: dict(MODES[name])
    C = lambda e, w, m="sparse", fail=0: {"e": e, "w": list(w), "mode": M(m), "fail": fail}
    out = []
    # provenance engine: the same engine object serves page after page
    out.append({"engines": LB_ENGINES, "calls": [C(0, [500]), C(0, [481]), C(0, [481, 33, 448], "dense-tight"), C(0, [448, 33, 1], fail=1),
                                                  C(0, [33]), C(0, [1], "nolog"), C(0, [481, 33, 448], "dense-tight")]})
    out.append({"engines": LB_ENGINES, "calls": [C(1, [448, 448]), C(1, [33, 1]), C(1, [448, 33], "dense"), C(1, [33, 33], "dense", fail=1),
                                                  C(2, [3841, 500, 481]), C(2, [448, 33, 1]), C(1, [1, 1]), C(2, [8000], "nolog"),
                                                  C(2, [481, 448, 33])]})
    out.append({"engines": LB_ENGINES, "calls": [C(2, [500, 500, 500], "dense"), C(2, [481, 33, 1], "dense"), C(2, [448, 448, 448], "nolog"),
                                                  C(2, [33, 33, 33], "nolog"), C(2, [1, 1, 1], "dense", fail=1), C(2, [], "sparse"),
                                                  C(2, [481, 33, 1], "dense")]})
    # real PytorchEngineLineOCR objects with different alphabets, asked alternately
    ws = [[33, 120, 9], [448, 1, 33], [8, 500, 3], [120, 120], [9], [500, 448, 120]]
    out.append({"engines": PT_ENGINES, "calls": [C(0, ws[0]), C(0, ws[0][::-1]), C(1, ws[0]), C(0, ws[0]), C(1, ws[2], "nolog"),
                                                  C(2, ws[1], "dense-tight"), C(0, ws[1], "dense-tight"), C(4, ws[3]), C(3, ws[3]),
                                                  C(1, ws[4], fail=1), C(0, ws[5])]})
    out.append({"engines": PT_ENGINES, "calls": [C(2, ws[5]), C(6, ws[5]), C(2, ws[5]), C(5, ws[0], "dense"), C(3, ws[0], "dense"),
                                                  C(5, ws[0], "dense"), C(6, ws[4], "nolog", fail=1), C(2, ws[4], "nolog"), C(1, ws[1])]})
    out.append({"engines": PT_ENGINES, "calls": [C(1, ws[2]), C(3, ws[2]), C(0, ws[2]), C(4, ws[2]), C(1, ws[2], "dense-tight"),
                                                  C(3, [], "sparse"), C(0, ws[1], "nolog"), C(3, ws[1], "sparse-tight", fail=1)]})
    # scale: lists of more than 255 / more than 1024 lines (positions beyond any 8- or 10-bit index), alphabet of 1300 symbols;
    # TLC evaluates PtLineOK for every one of these positions (no oracle value is pre-computed in Python)
    big = [ctx.rng.choice([1, 3, 8, 9, 33, 33, 33]) for _ in range(1100)]
    big[7], big[300], big[1000] = 120, 448, 120
    out.append({"engines": PT_ENGINES, "calls": [C(2, ws[0]), C(2, big, "dense"), C(0, big[:300]), C(1, big[250:520], "nolog"), C(2, ws[0])]})
    # sampled sessions
    names = sorted(MODES)
    for k in range(6 if quick else 30):
        pt = k % 2 == 0
        engs = PT_ENGINES if pt else LB_ENGINES
        pool = PT_WIDTHS if pt else b["widths"]
        calls = []
        for _ in range(ctx.rng.randint(4, 8)):
            n = ctx.rng.choice([1, 2, 3, 3, 4])
            calls.append(C(ctx.rng.randrange(len(engs)), [ctx.rng.choice(pool) for _ in range(n)], ctx.rng.choice(names),
                           fail=int(ctx.rng.random() < 0.15)))
        out.append({"engines": engs, "calls": calls})
    return out + wide_sessions(ctx, quick)


def _fresh(func, items, procs=4):
    """every item in a process of its own, forked from this one (a session starts from the state of a freshly started program)"""
    import multiprocessing as mp
    with mp.get_context("fork").Pool(min(procs, max(1, len(items))), maxtasksperchild=1) as pool:
        return pool.map(func, items, chunksize=1)


def judge_sessions(ctx, b, sess, pad):
    """one trace per call; judged like any other execution (strict, then property level); the replay case is the whole session"""
    if not sess:
        return
    per = _fresh(L.run_session, sess)
    cases, traces = [], []
    for k, (s, trs) in enumerate(zip(sess, per)):
        for j, tr in enumerate(trs):
            cases.append({"session": s, "call": j, "route": "session", "bounds": b["name"]})
            traces.append(tr)
    strict = constants(b, pad=pad, Strict=True)
    loose = constants(b, pad=pad, Strict=False)
    acc, rej = ctx.validate("LineBatcher_Trace", traces, constants=strict, label="LineBatcher_Trace sessions strict", shards=2)
    for c, tr in zip(cases, traces):
        call = c["session"]["calls"][c["call"]]
        ctx.count(1, ("session", tr["kind"], call["e"], tuple(tr["w"]), tuple(sorted(tr["mode"].items())), c["call"]) if c["call"] >= 1 and tr["w"] else None)
    if rej:
        idx = [r[0] for r in rej]
        acc2, rej2 = ctx.validate("LineBatcher_Trace", [traces[i] for i in idx], constants=loose, shards=1,
                                  label="LineBatcher_Trace sessions property-level")
        bad = {r[0]: r[1] for r in rej2}
        for k, i in enumerate(idx):
            tr, c = traces[i], cases[i]
            call = c["session"]["calls"][c["call"]]
            if k in bad:
                if tr["kind"] == "pt":
                    kind, what = _describe_pt(tr, bad[k])
                else:
                    kind, what = _describe(tr, bad[k])
                eng = c["session"]["engines"][call["e"]]
                ctx.violation({"bounds": b, "case": c, "pad": pad, "trace": _short(tr), "progress": bad[k]},
                              "%s:history:%s" % ("pytorch" if tr["kind"] == "pt" else "ctc", kind),
                              "%s; call %d of a session of %d calls on long-lived engines (engine %d: %s), widths %s mode %s" % (
                                  what, c["call"] + 1, len(c["session"]["calls"]), call["e"], eng, tr["w"], tr["mode"]))
            else:
                ctx.model_drift("sessions: execution differs from the design (batch composition / placement / merge) but every line "
                                "still gets its own result", 1, {"call": call, "engine": c["session"]["engines"][call["e"]]})
    good = [i for i in range(len(traces)) if i not in {r[0] for r in rej} and traces[i]["kind"] == "pt" and traces[i]["res"]
            and traces[i]["res"][0]["txt"]]
    if good and "selftest_corrupted_pt_trace_rejected" not in ctx.notes:
        def corrupt(tr):
            tr["res"][0]["txt"][0] += 2048          # the first character of line 1 now belongs to the next alphabet
            return tr
        ctx.selftest_corrupt("LineBatcher_Trace", traces[good[len(good) // 2]], corrupt, constants=loose)
        ctx.notes["selftest_corrupted_pt_trace_rejected"] = True
    goodw = [i for i in good if traces[i].get("wide") and traces[i]["mode"]["sparse"] and not traces[i]["mode"]["nolog"]
             and traces[i]["res"][0]["sp"] and any(v != 0 for v in traces[i]["res"][0]["sp"][0])]
    if goodw and "selftest_corrupted_wide_trace_rejected" not in ctx.notes:
        def corrupt_sp(tr):
            row = tr["res"][0]["sp"][0]
            top = max(v for v in row if v != 0)       # the stored values are off - D: the largest one is the frame's top logit
            row[row.index(top)] = 0                   # the most probable class of the first frame is no longer stored
            return tr
        ctx.selftest_corrupt("LineBatcher_Trace", traces[goodw[0]], corrupt_sp, constants=loose)
        ctx.notes["selftest_corrupted_wide_trace_rejected"] = True


def _describe_pt(tr, prog):
    if tr["outcome"] != "ok":
        return "outcome", "process_lines ended with %s" % tr["outcome"]
    if prog < len(tr["res"]):
        r = tr["res"][prog]
        if tr.get("wide"):
            return "line-result", ("result at input position %d (width %d) of an engine whose network emits frames of a wide dynamic range "
                                   "(spreads up to 800, common offsets up to 1e4) is not that image's result, or its %s logits are not "
                                   "the frame's logits %s: coords kind %d [%d, %d], %d frames, stored values of the first frames in the "
                                   "window %s" % (prog + 1, tr["w"][prog], "stored" if tr["mode"]["sparse"] else "returned",
                                                  "with posterior >= 1e-4 and 0 elsewhere" if tr["mode"]["sparse"] else "",
                                                  r["cs"], r["lo"], r["hi"], r["frames"], r["sp"][:3]))
        return "line-result", ("result at input position %d (width %d) is not the result of that image in the alphabet of the engine "
                               "asked (alphabet %d, %d symbols): %d characters, codes (2048 * alphabet + symbol) %s, coords kind %d [%d, %d], "
                               "%d frames" % (prog + 1, tr["w"][prog], tr["alpha"], tr["nsym"], r["tlen"], r["txt"][:8], r["cs"], r["lo"],
                                              r["hi"], r["frames"]))
    return "unfinished", "the result lists have the wrong length"


def _pad_of_engine(ctx):
    eng = L.StubEngine(L._config_path(None), 1, "ctc")
    return int(eng.line_padding_px)


def _nontrivial(tr):
    return len(tr["w"]) >= 2 and (len(tr["batches"]) >= 2 or any(len(b["rows"]) >= 2 for b in tr["batches"]))


def _describe(tr, prog):
    if tr["outcome"] != "ok":
        return "outcome", "process_lines ended with %s" % tr["outcome"]
    nb = len(tr["batches"])
    if prog < nb:
        return "batch", "run_ocr call %d (images %s, row width %s) is not admitted" % (prog + 1, tr["batches"][prog]["ids"], tr["batches"][prog]["fed"])
    i = prog - nb
    if i < len(tr["res"]):
        r = tr["res"][i]
        imgs = sorted({run[2] for run in r["lruns"]} | {run[2] for run in r["truns"]})
        return "line-result", ("result at input position %d (width %d) is not the result of that image: coords kind %d [%d, %d], "
                               "%d frames, source images seen in it %s, digest %d vs alone %d" % (
                                   i + 1, tr["w"][i], r["cs"], r["lo"], r["hi"], r["frames"], imgs, r["dig"], r["ref"]))
    return "unfinished", "the work list was not exhausted or the result lists have the wrong length"


def judge(ctx, b, cases, traces, pad):
    strict = constants(b, pad=pad, Strict=True)
    loose = constants(b, pad=pad, Strict=False)
    acc, rej = ctx.validate("LineBatcher_Trace", traces, constants=strict, label="LineBatcher_Trace %s strict" % b["name"])
    for c, tr in zip(cases, traces):
        ctx.count(1, (b["name"], tuple(tr["w"]), tr["bs"], tuple(sorted(tr["mode"].items())), c["route"]) if _nontrivial(tr) else None)
    good = [i for i in range(len(traces)) if i not in {r[0] for r in rej} and _nontrivial(traces[i])]
    if good:
        ctx.sample({"bounds": b["name"], "case": cases[good[len(good) // 2]], "trace": _short(traces[good[len(good) // 2]])}, limit=4)
    if good and "selftest_corrupted_lb_trace_rejected" not in ctx.notes:
        cands = [i for i in good if traces[i]["res"] and traces[i]["res"][0]["truns"]]
        if cands:
            ctx.notes["selftest_corrupted_lb_trace_rejected"] = True
            def corrupt(tr):
                tr["res"][0]["truns"][0][2] += 1      # the first character of line 1 now claims to come from another image
                return tr
            ctx.selftest_corrupt("LineBatcher_Trace", traces[cands[len(cands) // 2]], corrupt, constants=loose)
    if rej:
        idx = [r[0] for r in rej]
        sub = [traces[i] for i in idx]
        acc2, rej2 = ctx.validate("LineBatcher_Trace", sub, constants=loose, label="LineBatcher_Trace %s property-level" % b["name"])
        bad = {r[0]: r[1] for r in rej2}
        for k, i in enumerate(idx):
            if k in bad:
                kind, what = _describe(traces[i], bad[k])
                sig = "%s:%s" % ("transformer" if b["transformer"] else "ctc", kind)
                ctx.violation({"bounds": b, "case": cases[i], "pad": pad, "trace": _short(traces[i]), "progress": bad[k]}, sig,
                              "%s; widths %s batch size %d mode %s route %s" % (what, traces[i]["w"], traces[i]["bs"], traces[i]["mode"], cases[i]["route"]))
            else:
                ctx.model_drift("%s: execution differs from the design (batch composition / placement / merge) but every line "
                                "still gets its own result" % b["name"], 1, cases[i])
    return rej


def _short(tr):
    t = dict(tr)
    t["res"] = [{k: (v if not isinstance(v, list) or len(v) <= 6 else v[:6] + ["..."]) for k, v in r.items()} for r in tr["res"]]
    return t


def design(ctx, b):
    props = ["Terminates", "Progress"]
    ctx.tlc("LineBatcher", constants=constants(b), invariants=INVS, properties=props, spec="Spec", workers=8, timeout=3000,
            label="LineBatcher %s" % b["name"])
    # seen from every input position the bounded loop is a behaviour of the unbounded abstraction LineBatcherInd (any number of
    # lines, any batch composition), whose invariant Apalache proves inductive (run())
    ctx.tlc("LineBatcherRef", constants=constants(b), properties=["RefinesInd"], workers=4, timeout=3000, coverage=False, count=False,
            label="LineBatcherRef %s (RefinesInd)" % b["name"])


def sharpness(ctx):
    small = {"name": "variants", "widths": [1, 33, 448, 481, 3841], "maxlines": 3, "bs": [1, 2], "transformer": False, "mlw": None}
    for variant, inv in [("scatter_pos", "OwnResult"), ("window_nopad", "WindowOK"), ("place0", "WindowIsExtent")]:
        ctx.tlc("LineBatcher", constants=constants(small, variant=variant), invariants=INVS, workers=4, timeout=900,
                expect_violation=inv, label="LineBatcher variant %s" % variant, coverage=False)
    ctx.tlc("LineBatcher", constants=constants(small, variant="no_max1"), invariants=INVS, properties=["Progress"], spec="Spec",
            workers=4, timeout=900, expect_violation="Progress", label="LineBatcher variant no_max1", coverage=False)
    # the refinement mapping is sharp: with a defective variant of the design module RefinesInd is violated
    for variant in ("scatter_pos", "no_max1"):
        ctx.tlc("LineBatcherRef", constants=constants(small, variant=variant), properties=["RefinesInd"], workers=4, timeout=900,
                expect_violation="RefinesInd", label="LineBatcherRef variant %s (self-test)" % variant, coverage=False, count=False)


def run(ctx):
    L.setup(ctx.workdir)
    ctx.rule = ("every list of 0..n line images with widths from the bounded set (1 px .. beyond the engine maximum, equal widths, "
                "every order) x batch size x mode, executed by the real BaseEngineLineOCR.process_lines (and PageOCR.process_page) with "
                "a provenance stub network; non-trivial = at least two lines and either two run_ocr calls or a batch with two rows")
    ctx.exhaustive = all(b["fraction"] >= 1.0 for b in bounds(ctx.tier))
    ctx.assume("stub network: frame output depends on 8 columns of the row's own pixels (the statement's bounded-neighbourhood networks); "
               "real networks are not covered",
               "widths from a fixed set of 8 (12) values including 1, 31/32/33, the budget boundaries 448/481, 3841 and 8000; <= 3 (4) lines",
               "sparsification: posterior exactly 1e-4 (weight * 10^4 = sum) admits both outcomes (not decidable in floating point)",
               "transformer mode: the window/merge clause is checked with texts whose overlaps are exact; the merge itself is C15's subject",
               "history: a fixed set of sessions plus a few sampled ones (3 - 11 calls on up to 7 long-lived engine objects per process, a failing "
               "call in between, alphabets of 7 / 10 / 1300 symbols); histories are sampled by the driver, not enumerated by TLC - the trace "
               "specification judges every call as if it were the first one",
               "sparse storage on frames of a wide dynamic range: integer logits (exact in float32) from a fixed set of 13 frame patterns "
               "(thorough: + random pattern sets), <= 16 classes; a class whose posterior is within 2 % of 1e-4 admits both outcomes")
    pad = _pad_of_engine(ctx)
    sharpness(ctx)
    # unbounded part: any number of lines, any batch composition (Apalache, spec/LineBatcherInd.tla)
    from .. import indproof
    indproof.apalache_obligations(ctx, "LineBatcherInd", indproof.LB_RUNS)
    # sessions first: their processes are forked from a process in which no engine has been asked anything yet
    judge_sessions(ctx, bounds(ctx.tier)[0], sessions(ctx, bounds(ctx.tier)[0], ctx.tier == "quick"), pad)
    for b in bounds(ctx.tier):
        design(ctx, b)
        cases = cases_of(ctx, b)
        traces = pmap(L.run_case, cases, procs=6)
        judge(ctx, b, cases, traces, pad)
        acases = alias_cases(b)
        judge_alias(ctx, b, acases, [L.run_case(c) for c in acases], pad)
    ctx.notes["explanation"] = ("TLC exhaustive on LineBatcher per bounds entry (invariants %s, properties Terminates/Progress); every "
                                "width list of the same bounds run through the real process_lines with the provenance stub engine and "
                                "validated by LineBatcher_Trace (Strict, then property-level); the same for every call of the sessions on "
                                "long-lived engines (provenance stub engine and real PytorchEngineLineOCR objects with different alphabets)" % INVS)
    ctx.notes["line_padding_px_read_from_engine"] = pad


def replay(ctx, case):
    L.setup(ctx.workdir)
    b = case["bounds"]
    if case["case"].get("route") == "session":
        judge_sessions(ctx, b, [case["case"]["session"]], case.get("pad", 32))
        return
    tr = L.run_case(case["case"])
    judge(ctx, b, [case["case"]], [tr], case.get("pad", 32))
