"""C11 - lines are assigned to the regions they lie in, clipped, with unique ids (DESIGN.md section 4, C11).

1. Design: TLC explores spec/RegionAssign.tla.  Part A = one call of assign_lines_to_regions on the rectilinear grid
   (every set of <= MaxRegs shapes of the library x every list of <= MaxLines horizontal lines): PieceInside,
   WhollyInsideKept, DisjointNeverPlaced, LongestPiece, IdsDistinct, FilterHarmless, WithinAcceptance.  Part B =
   LayoutExtractor.process_page as a machine over the 16 option combinations: PageIdsDistinct, OnlyThatCombination.
   Self-test: Legacy=TRUE (line id without orientation tag = current tree) must violate PageIdsDistinct.
   Part C = a skewed page: tilted baselines (Pythagorean directions, exact integer rotations) in rectangular regions through the
   orientation loop and the merge loop (merge_lines: de-skew about the origin, merge, rotate back): CPieceOfDetected,
   CWhollyInsideKept.  Self-test: MergeBackSame=TRUE (rotating "back" by the same angle) must violate CWhollyInsideKept.
   Part C history: a second pass on the same region objects after their polygons were edited in place (CEdit: scaled with the
   lines, shifted).  Self-test: StaleOutline=TRUE (clipping outline cached with the region object) must violate CWhollyInsideKept.
2. Cases: the same configurations are built with numpy polygons and handed to the real
   layout_helpers.assign_lines_to_regions and to the real LayoutExtractor.process_page (stub detector).
   Part C: the same rectangles / tilted baselines through the real LayoutExtractor.process_page with MERGE_LINES on and off;
   object-state variants: two passes on the same supplied region objects with region.polygon edited IN PLACE between them (the
   second pass is judged against the polygon as it is then), and supplied regions that are copy.copy() of one template region
   (one shared `lines` list).
3. Conformance: RegionAssign_Trace, property level: Mandatory <= observed <= Allowed, outline clipped, ids distinct; kind "tilt":
   every returned line inside its rectangle and a piece of one detected baseline (0.1 px), outline inside the band of that baseline,
   every baseline wholly inside a rectangle (and not mergeable) returned with its points unchanged.
   The comparison with the detailed model (which pairs are placed) only feeds MODEL-DRIFT.
"""
import contextlib
import copy
import io
import itertools
import os
import random
import sys
import warnings

import numpy as np

from ..core import pmap

LEVEL = "model_checking"
PROCS = 6
INV_A = ["PieceInside", "WhollyInsideKept", "DisjointNeverPlaced", "LongestPiece", "IdsDistinct", "FilterHarmless",
         "WithinAcceptance"]
INV_B = ["PageIdsDistinct", "RegionIdsDistinct", "OnlyThatCombination"]

# ------------------------------------------------------------------------------------------------ shape library
# one dict for TLA+ (MCShapes) and Python (polygons): name -> cells (i = column, j = row); a cell is 2 x 2 px
_rect = lambda i0, i1, j0, j1: [(i, j) for i in range(i0, i1 + 1) for j in range(j0, j1 + 1)]
LIB_A = {            # 6 x 2 grid
    "R": _rect(0, 2, 0, 1),                                   # rectangle
    "N": _rect(1, 2, 0, 0),                                   # nested in R
    "U": [(i, 1) for i in range(5)] + [(0, 0), (1, 0), (4, 0)],   # concave, open at the top, arms of width 2 and 1
    "L": [(3, 1), (4, 1), (5, 1), (5, 0)],                    # concave
    "O": _rect(2, 4, 0, 1),                                   # overlaps R, U and L
    "S": [(0, 0), (1, 0), (2, 1), (3, 1)],                    # two bars touching in one corner: self-touching ring
}
LIB_B = {            # 3 x 2 grid for the option machine
    "R": _rect(0, 2, 0, 1),
    "N": _rect(1, 2, 0, 0),
    "C": [(0, 1), (1, 1), (2, 1), (0, 0), (2, 0)],            # concave (notch in the top row)
}
LIB_D = {            # 6 x 3 grid: notches two rows deep, so that a line in row 0 crossing the notch is really cut in two
    "V": [(i, 2) for i in range(6)] + [(i, j) for i in (0, 1, 3, 4, 5) for j in (0, 1)],      # arms of 2 and 3 cells
    "W": [(i, 2) for i in range(6)] + [(i, j) for i in (0, 1, 4, 5) for j in (0, 1)],         # two equal arms (ties)
    "T": _rect(0, 5, 0, 2),                                                                    # contains V and W
    # arms of different HEIGHT: left arm 2 cells wide and 2 rows high, right arm 3 cells wide but 1 row high - for a tall line in
    # row 1 the longest baseline piece (right) is not the piece with the largest outline area (left)
    "Y": [(i, 2) for i in range(6)] + [(0, 0), (1, 0), (0, 1), (1, 1)] + [(3, 1), (4, 1), (5, 1)],
}
LIBS = {"A": (LIB_A, 6, 2), "B": (LIB_B, 3, 2), "D": (LIB_D, 6, 3)}
# explicit ring of the self-touching shape (the outline passes twice through the corner (4, 2))
RINGS = {"S": [(0, 0), (4, 0), (4, 2), (8, 2), (8, 4), (4, 4), (4, 2), (0, 2)]}
INVALID = {"S"}


# ---- Part C: a skewed page - tilted baselines in rectangular regions (one dict for TLA+ and Python)
FAM_C = {
    "rects": {"P": (40, 40, 960, 760), "Lc": (40, 40, 480, 760), "Rc": (520, 40, 960, 760), "In": (60, 200, 700, 620)},   # x0 y0 x1 y1, px
    "regsets": [["P"], ["Lc", "Rc"], ["In", "P"]],                       # one page region, two columns, nested
    "dirs": [(40, 9, 41), (60, 11, 61), (40, -9, 41), (12, 5, 13)],       # Pythagorean directions (dx, dy, norm): 12.7, 10.4, -12.7, 22.6 degrees
    "slots": [150, 290, 430, 570],                                       # y of the first point: rows 140 px apart (not mergeable)
    "xs": [80, 300, 560],                                                # x of the first point: left column, across the gap, right column
    "lens": [200, 320],                                                  # approximate x-extent
    "page": (800, 1000),                                                 # height, width
    # in-place edits of the region polygons between two passes (f, dx, dy): polygon *= f; polygon += (dx, dy); f also scales the lines
    "edits": [(1, 200, 100), (2, 0, 0)],
}
SUPPLIED_ID_C = {"P": "r000", "Lc": "r000_1", "Rc": "r000_3", "In": "r001"}


def tilted_line(slot, xi, li, di):
    """the baseline [slot, di, a, d, n, ks, h] of the family: integer points a + ks[m] * d"""
    dx, dy, n = FAM_C["dirs"][di]
    k = max(3, int(round(FAM_C["lens"][li] / float(dx))))
    ks = [[0, k], [0, k // 2, k], [0, 1, k - 1, k]][(slot + xi + li) % 3]
    return {"slot": slot, "di": di, "a": [FAM_C["xs"][xi], FAM_C["slots"][slot]], "d": [dx, dy], "n": n, "ks": ks,
            "h": [8 + 2 * slot, 3 + slot]}


def tilted_lists(maxlines, di):
    """every list of <= maxlines baselines of direction di in strictly increasing rows (= CLineLists of RegionAssign)"""
    per_slot = [[tilted_line(sl, xi, li, di) for xi in range(len(FAM_C["xs"])) for li in range(len(FAM_C["lens"]))]
                for sl in range(len(FAM_C["slots"]))]
    for n in range(maxlines + 1):
        for slots in itertools.combinations(range(len(per_slot)), n):
            for combo in itertools.product(*[per_slot[sl] for sl in slots]):
                yield [dict(x) for x in combo]


def _tla_rect(name):
    x0, y0, x1, y1 = FAM_C["rects"][name]
    return '[name |-> "%s", x0 |-> %d, y0 |-> %d, x1 |-> %d, y1 |-> %d]' % (name, x0, y0, x1, y1)


def _tla_line(l):
    tup = lambda v: "<<" + ", ".join("%d" % x for x in v) + ">>"
    return "[slot |-> %d, di |-> %d, a |-> %s, d |-> %s, n |-> %d, ks |-> %s, h |-> %s]" % (
        l["slot"], l["di"], tup(l["a"]), tup(l["d"]), l["n"], tup(l["ks"]), tup(l["h"]))


def mc_part_c():
    regsets = ",\n ".join("{" + ", ".join(_tla_rect(n) for n in rs) + "}" for rs in FAM_C["regsets"])
    lines = ",\n ".join(_tla_line(tilted_line(sl, xi, li, di)) for di in range(len(FAM_C["dirs"]))
                        for sl in range(len(FAM_C["slots"])) for xi in range(len(FAM_C["xs"])) for li in range(len(FAM_C["lens"])))
    edits = ", ".join("[f |-> %d, dx |-> %d, dy |-> %d]" % e for e in FAM_C["edits"])
    return "MCRegSetsC == {%s}\nMCLineSetC == {%s}\nMCEditsC == {%s}\n" % (regsets, lines, edits)


def ring_of(lib, name):
    if name in RINGS:
        return np.array(RINGS[name], dtype=np.float64)
    from shapely.geometry import box
    from shapely.ops import unary_union
    u = unary_union([box(2 * i, 2 * j, 2 * i + 2, 2 * j + 2) for (i, j) in lib[name]])
    assert u.geom_type == "Polygon" and len(u.interiors) == 0, name
    return np.array(u.exterior.coords)[:-1].astype(np.float64)


def mc_module(lib, names, root):
    items = []
    for n in names:
        cells = "{" + ", ".join("<<%d, %d>>" % c for c in lib[n]) + "}"
        items.append('[name |-> "%s", cells |-> %s, valid |-> %s]' % (n, cells, "FALSE" if n in INVALID else "TRUE"))
    return "---- MODULE MC_%s ----\nEXTENDS %s\nMCShapes == {%s}\n%s====\n" % (root, root, ",\n ".join(items), mc_part_c())


def constants(ncols, nrows, maxregs, maxlines, legacy=False, cmax=2, back_same=False, stale=False):
    return {"Shapes": "<- MCShapes", "NCols": ncols, "NRows": nrows, "MaxRegs": maxregs, "MaxLines": maxlines, "Legacy": legacy,
            "CRegSets": "<- MCRegSetsC", "CLineSet": "<- MCLineSetC", "CMaxLines": cmax, "MergeBackSame": back_same,
            "CEdits": "<- MCEditsC", "StaleOutline": stale}


def all_lines(ncols, nrows):
    return [(j, a, b) for j in range(nrows) for a in range(ncols) for b in range(a + 1, ncols)]


def line_lists(ncols, nrows, maxlines):
    ls = all_lines(ncols, nrows)
    for n in range(maxlines + 1):
        for p in itertools.product(ls, repeat=n):
            yield [list(x) for x in p]


def reg_sets(names, maxregs):
    for n in range(maxregs + 1):
        for c in itertools.combinations(sorted(names), n):
            yield list(c)


# ------------------------------------------------------------------------------------------------ real executions
_LIB = {}
_GRID = (6, 2)


def _milli(v):
    v = float(v)
    if not np.isfinite(v) or abs(v) > 1e6:
        return -2000000000
    return int(round(v * 1000))


def _pts(a):
    a = np.asarray(a)
    if a.ndim != 2 or a.shape[1] != 2:
        return []
    return [[_milli(x), _milli(y)] for x, y in a]


def _cells(poly):
    """grid cells (one ring of margin around the grid) covered with positive area by the outline"""
    import shapely.geometry as sg
    try:
        p = sg.Polygon(np.asarray(poly))
        if not p.is_valid:
            p = p.buffer(0)
    except Exception:
        return [[-9, -9]]
    out = []
    for i in range(-1, _GRID[0] + 1):
        for j in range(-1, _GRID[1] + 1):
            if p.intersection(sg.box(2 * i, 2 * j, 2 * i + 2, 2 * j + 2)).area > 1e-9:
                out.append([i, j])
    return out


def _detected(lines, npts, tall=False):
    from pero_ocr.layout_engines import layout_helpers as helpers
    bl, hl, tl = [], [], []
    for k, (j, a, b) in enumerate(lines):
        n = npts[k % len(npts)]
        bsl = np.stack([np.linspace(2 * a + 1, 2 * b + 1, n), np.full(n, 2 * j + 1.0)], 1)
        # tall: the baseline runs a quarter pixel above the cell centre and the band reaches into the row above (ascender 2.5,
        # descender 1): its edges (y = 2j - 1.75 and 2j + 1.75) lie on no cell boundary, so the clipped outline of a line that
        # crosses a notch is a proper MultiPolygon (no edge coincides with the region's boundary)
        if tall:
            bsl = bsl - np.array([0.0, 0.25])
        h = [2.5, 1.0] if tall else [1.0, 1.0]
        bl.append(bsl)
        hl.append(h)
        tl.append(helpers.baseline_to_textline(bsl, h))
    return bl, hl, tl


def run_assign(case):
    """one real call of assign_lines_to_regions; case = {"lib", "regs", "lines", "npts"}"""
    from pero_ocr.layout_engines import layout_helpers as helpers
    from pero_ocr.core.layout import RegionLayout
    lib = LIBS[case["lib"]][0]
    # tp: the same configuration mirrored at the diagonal (x <-> y): vertical baselines, as the rotated passes of the
    # multi-orientation mode produce them; results are mirrored back, so the specification judges both alike
    tp = bool(case.get("tp"))
    flip = (lambda a: np.ascontiguousarray(np.asarray(a, dtype=np.float64)[:, ::-1])) if tp else (lambda a: a)
    regions = [RegionLayout(n, flip(ring_of(lib, n))) for n in case["regs"]]
    bl, hl, tl = _detected(case["lines"], case["npts"], tall=bool(case.get("tall")))
    if tp:
        bl = [flip(b) for b in bl]
        tl = [helpers.baseline_to_textline(b, h) for b, h in zip(bl, hl)]
    tr = {"kind": "assign", "tall": 1 if case.get("tall") else 0, "regs": list(case["regs"]), "lines": [list(x) for x in case["lines"]],
          "det": [_pts(flip(b)) for b in bl], "placed": [], "outcome": "ok"}
    try:
        with contextlib.redirect_stdout(io.StringIO()), warnings.catch_warnings():
            warnings.simplefilter("ignore")
            helpers.assign_lines_to_regions(bl, hl, tl, regions)
        for r in regions:
            for ln in r.lines:
                src = [n for n, h in enumerate(hl) if ln.heights is h]      # provenance by object identity
                tr["placed"].append({"region": r.id, "line": src[0] + 1 if len(src) == 1 else 0, "id": str(ln.id),
                                     "pts": _pts(flip(ln.baseline)), "cells": _cells(flip(ln.polygon))})
    except Exception as ex:
        tr["outcome"] = "exception:" + type(ex).__name__
        tr["placed"] = []
    return tr


class StubEngine:
    """stands for LayoutEngine: returns the same regions and lines for every orientation (fresh arrays per call)"""
    def __init__(self, lib, names, lines, npts):
        self.lib, self.names, self.lines, self.npts = lib, names, lines, npts
        self.polys = []

    def detect(self, img, rot=0):
        p_list = [ring_of(self.lib, n) for n in self.names]
        self.polys.append(p_list)
        bl, hl, tl = _detected(self.lines, self.npts)
        return p_list, bl, hl, tl



def _make_extractor(o, engine):
    """LayoutExtractor through its REAL constructor and the documented configuration keys (so that the check does not depend on
    the names of its attributes); only the model-loading engine class and the worker pool are replaced while it runs"""
    import configparser
    from pero_ocr.document_ocr import page_parser as pp
    cfg = configparser.ConfigParser()
    cfg["L"] = {"METHOD": "LAYOUT_CNN", "MODEL_PATH": "none", "DETECT_REGIONS": "yes" if o["dr"] else "no",
                "DETECT_LINES": "yes" if o["dl"] else "no", "MERGE_LINES": "yes" if o["merge"] else "no",
                "MULTI_ORIENTATION": "yes" if o["multi"] else "no", "DETECT_STRAIGHT_LINES_IN_REGIONS": "no",
                "ADJUST_HEIGHTS": "no", "ADJUST_BASELINES": "no", "USE_CPU": "yes", "DOWNSAMPLE": "4",
                "DETECTION_THRESHOLD": "0.2", "MAX_MEGAPIXELS": "5"}

    class _NoPool:
        def __init__(self, *a, **k):
            pass

    saved = pp.LayoutEngine, pp.Pool
    pp.LayoutEngine, pp.Pool = (lambda *a, **k: engine), _NoPool
    try:
        return pp.LayoutExtractor(cfg["L"], None, config_path="")
    finally:
        pp.LayoutEngine, pp.Pool = saved

def run_extract(case):
    """one real call of LayoutExtractor.process_page with a stub detector; case = {"regs", "lines", "npts", "opts"}"""
    from pero_ocr.document_ocr.page_parser import LayoutExtractor
    from pero_ocr.layout_engines import layout_helpers as helpers
    from pero_ocr.core.layout import PageLayout, RegionLayout
    lib = LIB_B
    o = case["opts"]
    tr = {"kind": "extract", "regs": list(case["regs"]), "lines": [list(x) for x in case["lines"]], "opts": dict(o),
          "result": [], "outcome": "ok"}
    try:
        with contextlib.redirect_stdout(io.StringIO()), warnings.catch_warnings():
            warnings.simplefilter("ignore")
            page = PageLayout(id="p", page_size=(2 * _GRID_B[1], 2 * _GRID_B[0]))
            # the supplied regions carry the ids an earlier detect-regions + multi-orientation pass gives them (r000, r000_1,
            # r000_3): region ids that differ only by an orientation suffix must not lead to equal line ids
            page.regions = [RegionLayout(SUPPLIED_ID[n], ring_of(lib, n)) for n in case["regs"]]
            bl, hl, tl = _detected(case["lines"], case["npts"])
            helpers.assign_lines_to_regions(bl, hl, tl, page.regions)          # the page was processed once before
            supplied = list(page.regions)                                      # (kept alive: identity is used below)
            shape_of = {id(r0): n for r0, n in zip(supplied, case["regs"])}
            le = _make_extractor(o, StubEngine(lib, case["regs"], case["lines"], case["npts"]))
            random.seed(case.get("seed", 0))
            np.random.seed(case.get("seed", 0))
            res = le.process_page(np.zeros((2 * _GRID_B[1], 2 * _GRID_B[0], 3), dtype=np.uint8), page)
        for r in res.regions:
            name = shape_of.get(id(r))
            if name is None:
                for p_list in le.engine.polys:
                    for k, p in enumerate(p_list):
                        if r.polygon is p:
                            name = case["regs"][k]
            if name is None:          # fall back to equality by value (the polygon was copied)
                for n in case["regs"]:
                    ring = ring_of(lib, n)
                    if np.asarray(r.polygon).shape == ring.shape and np.array_equal(np.asarray(r.polygon), ring):
                        name = n
            tr["result"].append({"rid": str(r.id), "name": name if name is not None else "?",
                                 "lines": [{"id": str(ln.id), "cells": _cells(ln.polygon)} for ln in r.lines]})
    except Exception as ex:
        tr["outcome"] = "exception:" + type(ex).__name__
        tr["result"] = []
    return tr


def _milli_c(v):
    """thousandths of a pixel, clamped to +-6000 px (keeps the products of RegionAssign_Trace inside TLC's 32-bit integers)"""
    v = float(v)
    if not np.isfinite(v):
        return -6000000
    return int(round(min(6000.0, max(-6000.0, v)) * 1000))


def _pts_c(a):
    a = np.asarray(a)
    if a.ndim != 2 or a.shape[1] != 2:
        return []
    return [[_milli_c(x), _milli_c(y)] for x, y in a]


def _rect_ring(name):
    x0, y0, x1, y1 = FAM_C["rects"][name]
    return np.array([[x0, y0], [x1, y0], [x1, y1], [x0, y1]], dtype=np.float64)


def _detected_c(lines):
    from pero_ocr.layout_engines import layout_helpers as helpers
    bl = [np.array([[l["a"][0] + k * l["d"][0], l["a"][1] + k * l["d"][1]] for k in l["ks"]], dtype=np.float64) for l in lines]
    hl = [[float(l["h"][0]), float(l["h"][1])] for l in lines]
    return bl, hl, [helpers.baseline_to_textline(b, h) for b, h in zip(bl, hl)]


class StubEngineC:
    """stands for LayoutEngine on a skewed page: rectangular regions for every orientation, the tilted baselines for rot 0 only
    (the rotated passes find vertical text, of which this page has none); fresh arrays per call"""
    def __init__(self, names, lines):
        self.names, self.lines = names, lines
        self.polys = []

    def detect(self, img, rot=0):
        p_list = [_rect_ring(n) for n in self.names]
        self.polys.append(p_list)
        bl, hl, tl = _detected_c(self.lines if rot == 0 else [])
        return p_list, bl, hl, tl


def _edit_line(l, e):
    f = e[0]
    return dict(l, a=[f * v for v in l["a"]], ks=[f * k for k in l["ks"]], h=[f * v for v in l["h"]])


def _edit_rect(name, e):
    f, dx, dy = e
    x0, y0, x1, y1 = FAM_C["rects"][name]
    return {"name": name, "x0": f * x0 + dx, "y0": f * y0 + dy, "x1": f * x1 + dx, "y1": f * y1 + dy}


def run_tilt(case):
    """one real call of LayoutExtractor.process_page on a skewed page; case = {"regs", "lines", "opts", "seed"} and optionally
    "edit": [f, dx, dy] - HISTORY: the supplied region objects first go through a plain DETECT_LINES pass, then the caller edits
       their polygon arrays IN PLACE (polygon *= f - with the detected lines, the page at another resolution -, polygon += (dx, dy))
       and the judged pass runs on the same objects; the trace holds the rectangles and the detected lines as they are THEN;
    "alias": 1 - the supplied regions are shallow copies (copy.copy) of one template region that was processed before, each with its
       own id and polygon: they share ONE `lines` list object"""
    from pero_ocr.layout_engines import layout_helpers as helpers
    from pero_ocr.core.layout import PageLayout, RegionLayout
    o = case["opts"]
    e = tuple(case.get("edit") or (1, 0, 0))
    lines1 = case["lines"]
    lines2 = [_edit_line(l, e) for l in lines1]
    tr = {"kind": "tilt", "opts": dict(o), "edit": list(e), "alias": 1 if case.get("alias") else 0,
          "rects": [_edit_rect(n, e) for n in case["regs"]],
          "det": [{k: l[k] for k in ("a", "d", "n", "ks", "h")} for l in lines2],
          "result": [], "outcome": "ok"}
    try:
        with contextlib.redirect_stdout(io.StringIO()), warnings.catch_warnings():
            warnings.simplefilter("ignore")
            page = PageLayout(id="p", page_size=FAM_C["page"])
            bl, hl, tl = _detected_c(lines1)
            if case.get("alias"):
                template = RegionLayout("template", _rect_ring("P"))
                helpers.assign_lines_to_regions(bl, hl, tl, [template])        # the template was processed once before
                page.regions = []
                for n in case["regs"]:
                    r0 = copy.copy(template)                                   # shares template.lines
                    r0.id, r0.polygon = SUPPLIED_ID_C[n], _rect_ring(n)
                    page.regions.append(r0)
            else:
                page.regions = [RegionLayout(SUPPLIED_ID_C[n], _rect_ring(n)) for n in case["regs"]]
                helpers.assign_lines_to_regions(bl, hl, tl, page.regions)      # the page was processed once before
            supplied = list(page.regions)
            name_of = {id(r0): n for r0, n in zip(supplied, case["regs"])}
            engine = StubEngineC(case["regs"], lines1)
            img = np.zeros(FAM_C["page"] + (3,), dtype=np.uint8)
            random.seed(case.get("seed", 0))
            np.random.seed(case.get("seed", 0))
            if case.get("edit"):
                first = _make_extractor({"dr": 0, "dl": 1, "merge": 0, "multi": 0}, engine)
                page = first.process_page(img, page)
                for r0 in supplied:                                            # in place: the array objects stay
                    r0.polygon *= e[0]
                    r0.polygon += np.array([e[1], e[2]], dtype=np.float64)
                engine.lines = lines2
                img = np.zeros((e[0] * FAM_C["page"][0], e[0] * FAM_C["page"][1], 3), dtype=np.uint8)
            le = _make_extractor(o, engine)
            res = le.process_page(img, page)
        for r in res.regions:
            name = name_of.get(id(r))
            if name is None:
                for p_list in le.engine.polys:
                    for k, p in enumerate(p_list):
                        if r.polygon is p:
                            name = case["regs"][k]
            if name is None:          # fall back to equality by value (the polygon was copied)
                for n in case["regs"]:
                    ring = _rect_ring(n)
                    if np.asarray(r.polygon).shape == ring.shape and np.array_equal(np.asarray(r.polygon), ring):
                        name = n
            tr["result"].append({"rid": str(r.id), "name": name if name is not None else "?",
                                 "lines": [{"id": str(ln.id), "pts": _pts_c(ln.baseline), "poly": _pts_c(ln.polygon)} for ln in r.lines]})
    except Exception as ex:
        tr["outcome"] = "exception:" + type(ex).__name__
        tr["result"] = []
    return tr


_GRID_B = (3, 2)
SUPPLIED_ID = {"R": "r000", "N": "r000_1", "C": "r000_3"}


def run_case(case):
    global _GRID
    if case["kind"] == "assign":
        _GRID = LIBS[case["lib"]][1:]
        return run_assign(case)
    if case["kind"] == "tilt":
        return run_tilt(case)
    _GRID = _GRID_B
    return run_extract(case)


# ------------------------------------------------------------------------------------------------ verdicts
CL_A = {0: "the call raised", 1: "two lines got the same id",
        2: "a placed line is not a longest inside piece (> 2 px) of the detected baseline in that region",
        3: "the outline of a placed line is not clipped to the region",
        4: "a line wholly inside a region was not placed there unchanged"}
CL_B = {0: "process_page raised", 1: "two lines on the page have the same id", 2: "a line does not lie inside its region"}
CL_C = {0: "process_page raised", 1: "two lines on the page have the same id",
        2: "a placed line does not lie inside its region or its baseline is not a piece of a detected baseline",
        3: "the outline of a placed line is not inside its region / not the clipped outline of the detected line",
        4: "a detected baseline wholly inside a region (and not mergeable) was not placed there unchanged"}


def signature(tr, prog):
    if tr["kind"] == "assign":
        cls = "self-touching-region" if any(n in INVALID for n in tr["regs"]) else "simple-regions"
        what = {0: tr["outcome"], 1: "duplicate-line-ids", 2: "piece-not-allowed", 3: "outline-not-clipped",
                4: "wholly-inside-not-kept"}.get(prog, "clause%d" % prog)
        return "assign:%s:%s" % (cls, what)
    o = tr["opts"]
    if tr["kind"] == "tilt":
        what = {0: tr["outcome"], 1: "duplicate-line-ids", 2: "not-a-piece-of-detected-baseline", 3: "outline-not-clipped",
                4: "wholly-inside-not-kept"}.get(prog, "clause%d" % prog)
        var = ""
        if tr.get("edit", [1, 0, 0]) != [1, 0, 0]:
            var = ",polygon-edited-in-place=%s" % ("scale" if tr["edit"][0] != 1 else "shift")
        if tr.get("alias"):
            var += ",shared-lines-list=1"
        return "tilt:%s:dr=%d,dl=%d,merge=%d,multi=%d%s" % (what, o["dr"], o["dl"], o["merge"], o["multi"], var)
    what = {0: tr["outcome"], 1: "duplicate-line-ids", 2: "line-outside-region"}.get(prog, "clause%d" % prog)
    return "extract:%s:dr=%d,dl=%d,merge=%d,multi=%d" % (what, o["dr"], o["dl"], o["merge"], o["multi"])


def judge(ctx, cases, traces, lib_names, consts, label, drift=True):
    lib, names = lib_names
    files = {"MC_RegionAssign_Trace.tla": mc_module(lib, names, "RegionAssign_Trace")}
    shards = min(PROCS, max(1, len(traces) // 300))
    acc, rej = ctx.validate("MC_RegionAssign_Trace", traces, constants=dict(consts, Detailed=False), files=files, shards=shards,
                            label="RegionAssign_Trace " + label)
    rejected = {i for i, _ in rej}
    tally = ctx.notes.setdefault("rejected_by_signature", {})
    for i, prog in rej:
        sg_ = signature(traces[i], prog)
        tally[sg_] = tally.get(sg_, 0) + 1
    for case, tr in zip(cases, traces):
        n = len(tr["placed"]) if tr["kind"] == "assign" else sum(len(r["lines"]) for r in tr["result"])
        ctx.count(1, (tr["kind"], repr(case)) if n > 0 else None)
    for i, prog in rej:
        tr = traces[i]
        cl = {"assign": CL_A, "extract": CL_B, "tilt": CL_C}[tr["kind"]].get(prog, "clause %d" % prog)
        if tr["kind"] == "tilt":
            what = "LayoutExtractor.process_page %s on a skewed page%s, regions %s, detected baselines (px) %s: %s; lines returned %s" % (
                tr["opts"], (" (second pass on the same region objects after polygon *= %d; polygon += (%d, %d) in place)" % tuple(tr["edit"])
                             if tr.get("edit", [1, 0, 0]) != [1, 0, 0] else "") +
                (" (supplied regions = copy.copy of one template: shared lines list)" if tr.get("alias") else ""),
                [[r["name"], r["x0"], r["y0"], r["x1"], r["y1"]] for r in tr["rects"]],
                [[[l["a"][0] + k * l["d"][0], l["a"][1] + k * l["d"][1]] for k in (l["ks"][0], l["ks"][-1])] for l in tr["det"]], cl,
                [(r["name"], ln["id"], [[round(v / 1000.0, 2) for v in q] for q in (ln["pts"][0], ln["pts"][-1])] if ln["pts"] else [])
                 for r in tr["result"] for ln in r["lines"]])
        elif tr["kind"] == "assign":
            what = "assign_lines_to_regions(regions %s, lines [row, first col, last col] %s): %s; placed %s" % (
                tr["regs"], tr["lines"], cl, [(p["region"], p["line"], p["id"], p["pts"][0][0] / 1000.0, p["pts"][-1][0] / 1000.0)
                                              for p in tr["placed"] if p["pts"]])
        else:
            what = "LayoutExtractor.process_page %s, regions %s, lines %s: %s; line ids %s" % (
                tr["opts"], tr["regs"], tr["lines"], cl, [ln["id"] for r in tr["result"] for ln in r["lines"]])
        _PENDING.append(({"case": cases[i], "progress": prog}, signature(tr, prog), what))
    if drift:
        keep = [i for i in range(len(traces)) if i not in rejected and traces[i]["kind"] == "assign"]
        if keep:
            sub = [traces[i] for i in keep]
            before = ctx.traces_validated
            _, rej2 = ctx.validate("MC_RegionAssign_Trace", sub, constants=dict(consts, Detailed=True), files=files, shards=shards,
                                   label="RegionAssign_Trace detailed " + label)
            ctx.traces_validated = before
            for j, prog in rej2:
                ctx.model_drift("assign: set of placed (region, line) pairs differs from RegionAssign.Assign "
                                "(mandatory <= observed <= allowed holds)", 1,
                                {"regs": sub[j]["regs"], "lines": sub[j]["lines"],
                                 "placed": [(p["region"], p["line"]) for p in sub[j]["placed"]]})
    return acc, rej


_PENDING = []

OPTS_C_QUICK = [(0, 1, 1, 0), (1, 1, 1, 0), (0, 0, 1, 0), (0, 1, 0, 0), (1, 1, 0, 0)]        # dr, dl, merge, multi
OPTS_C_MORE = [(0, 1, 1, 1), (1, 1, 1, 1), (0, 0, 1, 1), (1, 0, 1, 0), (1, 1, 0, 1)]


VAR_OPTS_EDIT = [(0, 1, 0, 0), (0, 1, 1, 0), (0, 1, 0, 1), (0, 1, 1, 1)]
VAR_OPTS_ALIAS = [(0, 1, 0, 0), (0, 1, 1, 0), (0, 0, 1, 0), (0, 1, 0, 1), (0, 1, 1, 1)]


def tilt_cases(quick):
    """Part C executions: quick = every list of <= 2 baselines and every 8th list of 3, each with ONE of the 15 (region set, option
    set) combinations in turn; thorough = every list of <= 2 baselines with all 30 combinations, every list of 3 with two of them.
    Object-state variants (in-place polygon edit between two passes / shared lines list): quick = every second list of <= 2
    baselines with one of the 21 (region set, variant, option set) combinations in turn; thorough = every list of <= 2 with 8 of 39"""
    cases = []

    def add(ls, regs, o, seed):
        cases.append({"kind": "tilt", "regs": list(regs), "lines": ls, "seed": seed,
                      "opts": dict(zip(("dr", "dl", "merge", "multi"), o))})
    for di in range(len(FAM_C["dirs"])):
        for idx, ls in enumerate(tilted_lists(3, di)):
            if quick:
                if len(ls) == 3 and idx % 8 != di:
                    continue
                combos = [(rs, o) for rs in FAM_C["regsets"] for o in OPTS_C_QUICK]
                picks = [combos[(idx + di) % len(combos)]]
            else:
                combos = [(rs, o) for rs in FAM_C["regsets"] for o in OPTS_C_QUICK + OPTS_C_MORE]
                picks = combos if len(ls) <= 2 else [combos[idx % len(combos)], combos[(idx + 7) % len(combos)]]
            for rs, o in picks:
                add(ls, rs, o, idx)
            # round 9 - object state: (a) history: the same supplied region objects through two passes with the polygon arrays edited
            # in place between them, (b) supplied regions that are shallow copies of one template (one shared `lines` list)
            if len(ls) <= 2:
                var = [({"edit": list(e)}, o) for e in FAM_C["edits"] for o in VAR_OPTS_EDIT[:2 if quick else 4]]
                var += [({"alias": 1}, o) for o in VAR_OPTS_ALIAS[:3 if quick else 5]]
                var = [(rs, v, o) for rs in FAM_C["regsets"] for v, o in var]
                if quick:
                    picks = [var[(idx // 2 + di) % len(var)]] if idx % 2 == 0 else []
                else:
                    picks = [var[(idx + di + 4 * j) % len(var)] for j in range(8)]
                for rs, v, o in picks:
                    add(ls, rs, o, idx)
                    cases[-1].update(v)
    return cases


def flush(ctx):
    """report the rejected executions: one of every signature first (replay files are kept for the first 50 only)"""
    seen, first, rest = set(), [], []
    for v in _PENDING:
        (rest if v[1] in seen else first).append(v)
        seen.add(v[1])
    for case, sig, what in first + rest:
        ctx.violation(case, sig, what)
    del _PENDING[:]


def _dbg(ctx, msg):
    if os.environ.get("VERIF_DEBUG"):
        sys.stderr.write("[c11 %6.1fs] %s\n" % (ctx.elapsed(), msg))


def run(ctx):
    quick = ctx.tier == "quick"
    ctx.rule = ("Part A: every set of <= MaxRegs region shapes (rectangle, nested, concave U / L, overlapping, self-touching) x "
                "every list of <= MaxLines horizontal lines on the 6 x 2 cell grid (and deep-notch U shapes on a 6 x 3 grid) through the "
                "real assign_lines_to_regions; "
                "Part B: every set of <= 2 of 3 shapes x every list of <= 2 lines on the 3 x 2 grid x 16 option combinations "
                "through the real LayoutExtractor.process_page with a stub detector; "
                "Part C: lists of <= 3 tilted baselines (4 page skews, 4 rows x 3 columns x 2 lengths, 2-4 points) x 3 sets of rectangular "
                "regions (page, two columns, nested) x option sets with and without MERGE_LINES through the real process_page "
                "(quick: every list of <= 2 and every 8th list of 3 with one combination each; thorough: all 30 combinations); "
                "non-trivial = at least one line placed")
    ctx.exhaustive = True
    ctx.assume("regions are rectilinear polygons on a 2 px cell grid; detected lines are horizontal, end in cell centres and have "
               "heights (1, 1) so that their outline is one grid row",
               "the stub detector returns the same regions and lines for every orientation (Part C: the tilted lines for rot 0 only)",
               "Part C object-state variants: regions whose polygon array was edited in place between two passes, and regions that "
               "share one `lines` list object (shallow copies of a template), are ordinary inputs: the pass is judged on what the page "
               "holds afterwards; DETECT_STRAIGHT_LINES_IN_REGIONS (needs the network) is not executed",
               "Part C: baselines in different rows (140 px apart, heights <= 20 px) are not mergeable; 'unchanged' / 'piece of the "
               "detected baseline' within 0.1 px (the rotate-forth-and-back of merge_lines is exact to ~1e-13 px); under MERGE_LINES "
               "'placed unchanged' is demanded only of baselines at least twice the summed heights away from every other baseline",
               "coordinates compared exactly in thousandths of a pixel (shapely returns exact values on this family)",
               "'clipped' = the outline covers (with area > 1e-9) only cells of the region",
               "the drift case of DESIGN.md (outline edge on a region boundary -> GeometryCollection -> line dropped) is "
               "accepted: the statement demands placement only for lines wholly inside")

    # ---- design
    # pairs (region, line) are judged independently and only meet in the id numbering: quick covers (<= 2 regions, <= 1 line)
    # and (<= 1 region, <= 2 lines); thorough every set of <= 3 regions with every list of <= 2 lines
    # library D (6 x 3 grid, notches two rows deep) exercises the longest-piece rule on lines that are really cut in two
    a_groups = [("A", [(2, 1), (1, 2)]), ("D", [(2, 1)])] if quick else [("A", [(3, 2)]), ("D", [(3, 2)])]
    for ln, cfgs in a_groups:
        lib, nc, nr = LIBS[ln]
        for mr, ml in cfgs:
            ctx.tlc("MC_RegionAssign", constants=constants(nc, nr, mr, ml), init="AInit", next_="ANext", invariants=INV_A,
                    workers=4 if quick else 6, timeout=3000, files={"MC_RegionAssign.tla": mc_module(lib, sorted(lib), "RegionAssign")},
                    label="RegionAssign Part A library %s grid %dx%d regs<=%d lines<=%d" % (ln, nc, nr, mr, ml))
    b_cfg = (3, 2, 2, 2) if quick else (3, 2, 3, 2)
    names_b = sorted(LIB_B)
    cb = constants(*b_cfg)
    fb = {"MC_RegionAssign.tla": mc_module(LIB_B, names_b, "RegionAssign")}
    ctx.tlc("MC_RegionAssign", constants=cb, init="BInit", next_="BNext", invariants=INV_B, workers=4 if quick else 6, timeout=3000, files=fb,
            label="RegionAssign Part B (option machine) grid 3x2 regs<=%d lines<=%d" % (b_cfg[2], b_cfg[3]))
    ctx.tlc("MC_RegionAssign", constants=constants(3, 2, 1, 1, legacy=True), init="BInit", next_="BNext", invariants=["PageIdsDistinct"],
            workers=1, coverage=False, files=fb, expect_violation="PageIdsDistinct",
            label="self-test Legacy=TRUE (line id without orientation tag)")
    # Part C: a skewed page (tilted baselines in rectangular regions) through the orientation loop and the merge loop; self-test: the
    # "back" rotation of merge_lines by the same angle as forth (MergeBackSame) must violate CWhollyInsideKept
    cmax = 2 if quick else 3
    ctx.tlc("MC_RegionAssign", constants=constants(3, 2, 1, 1, cmax=cmax), init="CInit", next_="CNext",
            invariants=["CPieceOfDetected", "CWhollyInsideKept", "CMergeEnabled"], workers=4, timeout=3000, files=fb,
            label="RegionAssign Part C (skewed page, merge loop) lines<=%d" % cmax)
    ctx.tlc("MC_RegionAssign", constants=constants(3, 2, 1, 1, cmax=2, back_same=True), init="CInit", next_="CNext",
            invariants=["CWhollyInsideKept"], workers=1, coverage=False, files=fb, expect_violation="CWhollyInsideKept",
            label="self-test MergeBackSame=TRUE (merge_lines rotates back by the same angle)")
    ctx.tlc("MC_RegionAssign", constants=constants(3, 2, 1, 1, cmax=1, stale=True), init="CInit", next_="CNext",
            invariants=["CWhollyInsideKept"], workers=1, coverage=False, files=fb, expect_violation="CWhollyInsideKept",
            label="self-test StaleOutline=TRUE (outline cached with the region object survives an in-place edit of its polygon)")
    _dbg(ctx, "design done")

    # ---- Part A: real assign_lines_to_regions on the same space
    import pero_ocr.layout_engines.layout_helpers     # noqa: F401  (import before forking)
    npts_choices = [[2], [3], [2, 3], [4, 2]]
    selftested = False
    for ln, cfgs in a_groups:
        lib, nc, nr = LIBS[ln]
        names = sorted(lib)
        cases = []
        seen = set()
        for mr, ml in cfgs:
            for regs in reg_sets(names, mr):
                for idx, ls in enumerate(line_lists(nc, nr, ml)):
                    key = (tuple(regs), tuple(map(tuple, ls)))
                    if key not in seen:
                        seen.add(key)
                        cases.append({"kind": "assign", "lib": ln, "regs": regs, "lines": ls, "npts": npts_choices[(idx + len(regs)) % 4]})
                        if ls:      # the same configuration mirrored at the diagonal: vertical baselines
                            cases.append(dict(cases[-1], tp=True))
                        if ls and ln == "D" and all(x[0] >= 1 for x in ls):
                            # tall outlines (two grid rows): the outline pieces and the baseline pieces of a line that enters a
                            # region twice no longer have the same ranking
                            # (not mirrored: a reflection swaps the ascender and descender sides of the band)
                            cases.append(dict(cases[-2], tall=True))
        traces = pmap(run_case, cases, procs=PROCS)
        _dbg(ctx, "part A library %s executed %d" % (ln, len(cases)))
        tconsts = constants(nc, nr, 1, 1)
        acc, rej = judge(ctx, cases, traces, (lib, names), tconsts, "Part A library " + ln)
        _dbg(ctx, "part A library %s judged" % ln)
        rejected = {i for i, _ in rej}
        good = next((i for i in range(len(traces) - 1, -1, -1) if i not in rejected and len(traces[i]["placed"]) >= 2), None)
        if good is None:
            continue
        ctx.sample({"part": "A", "library": ln, "regs": traces[good]["regs"], "lines": traces[good]["lines"],
                    "placed": [(p["region"], p["line"], p["id"]) for p in traces[good]["placed"]]})
        if selftested:
            continue
        selftested = True
        tfiles = {"MC_RegionAssign_Trace.tla": mc_module(lib, names, "RegionAssign_Trace")}

        def corrupt(tr):
            tr["placed"][0]["pts"][-1][0] += 2000        # the first placed line ends 2 px further right than recorded
            return tr
        ctx.selftest_corrupt("MC_RegionAssign_Trace", traces[good], corrupt, constants=dict(tconsts, Detailed=False), files=tfiles)

        def corrupt2(tr):
            tr["placed"][1]["id"] = tr["placed"][0]["id"]  # two lines with one id
            return tr
        ctx.selftest_corrupt("MC_RegionAssign_Trace", traces[good], corrupt2, constants=dict(tconsts, Detailed=False), files=tfiles)

    # ---- Part B: real LayoutExtractor.process_page on the same space
    import pero_ocr.document_ocr.page_parser           # noqa: F401
    _dbg(ctx, "page_parser imported")
    cases = []
    for regs in reg_sets(names_b, b_cfg[2]):
        for idx, ls in enumerate(line_lists(b_cfg[0], b_cfg[1], b_cfg[3])):
            for dr, dl, merge, multi in itertools.product((0, 1), repeat=4):
                cases.append({"kind": "extract", "regs": regs, "lines": ls, "npts": npts_choices[idx % 4], "seed": idx,
                              "opts": {"dr": dr, "dl": dl, "merge": merge, "multi": multi}})
    traces = pmap(run_case, cases, procs=PROCS)
    _dbg(ctx, "part B executed %d" % len(cases))
    judge(ctx, cases, traces, (LIB_B, names_b), constants(3, 2, 1, 1), "Part B", drift=False)
    k = next((i for i in range(len(traces)) if sum(len(r["lines"]) for r in traces[i]["result"]) >= 3), 0)
    ctx.sample({"part": "B", "opts": traces[k]["opts"], "regs": traces[k]["regs"], "lines": traces[k]["lines"],
                "line_ids": [ln["id"] for r in traces[k]["result"] for ln in r["lines"]]})
    # ---- Part C: real LayoutExtractor.process_page on a skewed page (tilted baselines, rectangular regions, merge loop)
    cases = tilt_cases(quick)
    ctx.notes["part_c"] = ("every baseline list of the Part C design is executed, but not with every (region set, option set) "
                           "combination: " + (tilt_cases.__doc__ or "").strip())
    traces = pmap(run_case, cases, procs=PROCS)
    _dbg(ctx, "part C executed %d" % len(cases))
    _, rej = judge(ctx, cases, traces, (LIB_B, names_b), constants(3, 2, 1, 1), "Part C (skewed page)", drift=False)
    rejected = {i for i, _ in rej}
    k = next((i for i in range(len(traces)) if i not in rejected and traces[i]["opts"]["merge"] == 1
              and sum(len(r["lines"]) for r in traces[i]["result"]) >= 2), None)
    if k is not None:
        ctx.sample({"part": "C", "opts": traces[k]["opts"], "regs": cases[k]["regs"],
                    "lines": [(r["name"], ln["id"], ln["pts"]) for r in traces[k]["result"] for ln in r["lines"]]})

        def corrupt3(tr):
            r = next(r for r in tr["result"] if r["lines"])
            for q in r["lines"][0]["pts"]:
                q[1] += 2000                             # the first returned baseline lies 2 px lower than recorded
            return tr
        ctx.selftest_corrupt("MC_RegionAssign_Trace", traces[k], corrupt3, constants=dict(constants(3, 2, 1, 1), Detailed=False),
                             files={"MC_RegionAssign_Trace.tla": mc_module(LIB_B, names_b, "RegionAssign_Trace")})
    flush(ctx)
    ctx.notes["explanation"] = (
        "TLC exhaustive on RegionAssign Part A (invariants %s) and Part B (%s); the same region sets / line lists / option "
        "combinations executed by the real assign_lines_to_regions and LayoutExtractor.process_page (stub detector) and validated "
        "by RegionAssign_Trace at property level (mandatory <= observed <= allowed, outline clipped, ids distinct)" % (INV_A, INV_B))


def replay(ctx, rec):
    case = rec["case"]
    tr = run_case(case)
    if case["kind"] == "assign":
        lib, nc, nr = LIBS[case["lib"]]
        judge(ctx, [case], [tr], (lib, sorted(lib)), constants(nc, nr, 1, 1), "replay", drift=False)
    elif case["kind"] == "tilt":
        judge(ctx, [case], [tr], (LIB_B, sorted(LIB_B)), constants(3, 2, 1, 1), "replay", drift=False)
    else:
        judge(ctx, [case], [tr], (LIB_B, sorted(LIB_B)), constants(3, 2, 1, 1), "replay", drift=False)
    flush(ctx)
