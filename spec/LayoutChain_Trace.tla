-------------------------- MODULE LayoutChain_Trace --------------------------
(* A recorded run of the real PageParser.process_page with RUN_LAYOUT_PARSER on (real WholePageRegion, LayoutExtractor,
   LineFilter, TextlineExtractorSimple, LinePostprocessor + PostprocessingEngine, LayoutPostprocessor around stub detection
   engines) is accepted iff it is a behaviour of LayoutChain from the recorded chain, environment and input page: after every
   stage the same regions in the same order with the same ids, and in every region the same lines in the same order with the
   same ids and geometry classes; the same outcome.  One event per stage (Tr.steps[i] = structure after stage i).            *)
EXTENDS LayoutChain, TraceKit
VARIABLE tid
Tr == Traces[tid]

ToLine(l) == [id |-> l.id, rid |-> l.rid, q |-> l.q]
ToRegion(r) == [id |-> r.id, slot |-> r.slot, lines |-> [k \in 1..Len(r.lines) |-> ToLine(r.lines[k])]]
ToPage(p) == [j \in 1..Len(p) |-> ToRegion(p[j])]

TInit == /\ tid \in 1..NTraces
         /\ chain = [i \in 1..Len(Tr.chain) |-> Cfg(Tr.chain[i].m, Tr.chain[i].a, Tr.chain[i].b, Tr.chain[i].c, Tr.chain[i].v)]
         /\ det = [polys |-> Tr.det.polys, lines |-> [i \in 1..Len(Tr.det.lines) |-> [k |-> Tr.det.lines[i].k, lo |-> Tr.det.lines[i].lo, hi |-> Tr.det.lines[i].hi]]]
         /\ ks = Tr.ks
         /\ page = ToPage(Tr.page)
         /\ pos = 0 /\ outcome = "running" /\ fresh = TRUE

TStep == /\ Step
         /\ pos' <= Len(Tr.steps)
         /\ outcome' = Tr.steps[pos'].outcome
         /\ (outcome' = "running") => page' = ToPage(Tr.steps[pos'].page)
TDone == /\ Done
         /\ Len(Tr.steps) = Len(chain) /\ Tr.outcome = "ok"
TNext == UNCHANGED tid /\ (TStep \/ TDone)

Finished == outcome # "running" /\ outcome = Tr.outcome
TAccept == TKMark(tid, pos, Finished)
TPost == TKPost
ASSUME TKReset
=============================================================================
