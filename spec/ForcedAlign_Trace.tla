------------------------- MODULE ForcedAlign_Trace -------------------------
(* Trace layer for ForcedAlign (C05): one recorded execution = the results of
      force_align(cm, labels, blank), force_align(..., return_seq_positions=True) and align_text(cm, labels, blank)
   of the real pero_ocr.core.force_alignment on one (cost matrix, label string, blank index).

   Acceptance is property-level (DESIGN.md 3.4 / Appendix D): ANY valid alignment of minimal total cost is accepted,
   whatever tie-break produced it; the per-character positions may be any most-confident frame of the character's
   frames.  The oracle is the brute force over all C^T frame labellings of the design module (Valid, BestCost), not the
   Viterbi recursion.  The functions are pure, so everything is decided in the initial state:
   verdict = 0 (accepted) or the number of the first clause that fails.

   Trace record: cm (T rows of C costs, 999 = +inf), labels, blank, outcome ("ok" | "error" = ValueError | other),
   path (symbol per frame), seq (character number per frame, 0 on blank frames), pos (1-based frame per character). *)
EXTENDS ForcedAlign, TraceKit
CONSTANT SeqClause     \* TRUE: also judge the return_seq_positions variant (clause 7).  It is not named by the statement, so the
                       \* verdict pass runs with FALSE and a mismatch found with TRUE is reported as MODEL-DRIFT only.
VARIABLES tid, verdict

Tr == Traces[tid]

IsSeqOver(s, n, S) == DOMAIN s = 1..n /\ \A k \in 1..n : s[k] \in S
OptValid == {a \in Valid : PathCost(a) = BestCost}

\* the alignment a (a labelling of the frames) explains the recorded character numbering / the recorded positions
SeqExplainedBy(a) == Tr.seq = CharIdx(a)
PosExplainedBy(a) == PosAdmissible(Tr.pos, CharIdx(a))

Judge ==
    IF Tr.outcome \notin {"ok", "error"} THEN 1                         \* an exception other than the documented failure
    ELSE IF Tr.outcome = "error"
         THEN (IF BlankAmongLabels \/ BestCost >= Inf THEN 0 ELSE 2)    \* failure reported although an alignment exists
    ELSE IF BlankAmongLabels \/ Valid = {} THEN 3                       \* success reported although no alignment exists
    ELSE IF ~IsSeqOver(Tr.path, T, Syms) THEN 4                         \* not one symbol per frame
    ELSE IF Collapse(Tr.path) # labels THEN 5                           \* does not collapse to the labels
    ELSE IF PathCost(Tr.path) # BestCost THEN 6                         \* not of minimal total cost
    ELSE IF SeqClause /\ ~IsSeqOver(Tr.seq, T, 0..L) THEN 7
    ELSE IF SeqClause /\ ~(SeqExplainedBy(Tr.path) \/ \E a \in OptValid : SeqExplainedBy(a)) THEN 7   \* character numbering is not that of an optimal alignment
    ELSE IF ~IsSeqOver(Tr.pos, L, 1..T) THEN 8
    ELSE IF ~StrictlyIncreasing(Tr.pos) THEN 8                          \* positions not strictly increasing
    ELSE IF ~(PosExplainedBy(Tr.path) \/ \E a \in OptValid : PosExplainedBy(a)) THEN 9    \* not the most confident frame of the character
    ELSE 0

TInit == /\ tid \in 1..NTraces
         /\ cm = [f \in 1..T |-> [s \in Syms |-> Traces[tid].cm[f][s + 1]]]
         /\ labels = Traces[tid].labels
         /\ blank = Traces[tid].blank
         /\ phase = "start" /\ t = 0 /\ hist = <<>> /\ path = <<>> /\ pos = <<>>
         /\ verdict = Judge

TNext == UNCHANGED <<vars, tid, verdict>>

TAccept == TKMark(tid, verdict, verdict = 0)
TPost == TKPost
ASSUME TKReset
=============================================================================
