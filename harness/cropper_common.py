"""C10 helper: the bounded configuration spaces of spec/Cropper.tla (one Python dict of bounds -> TLC constants and
the enumerated cases), the page painter (same formulas as Val in the spec) and the recorder that runs the real
EngineLineCropper.crop() on a case and projects the execution onto the Cropper_Trace format."""
import contextlib
import io
import itertools
import math
import warnings

import numpy as np

import cv2
import pero_ocr.core.crop_engine as ce_mod
from pero_ocr.core.crop_engine import EngineLineCropper

OFF = 64          # offset of the signed configuration values (cfg files have no negative literals)
MARGIN = 17       # zero margin of the "smooth" page content (so that cutting inside the margin removes only zeros)


# ----------------------------------------------------------------------------------------------- bounds
def bounds(family, **kw):
    b = {"Family": family, "Ns": [2, 3, 4, 5], "DXs": [12], "DYs": [0], "Curvs": [0], "X0s": [20], "Y0s": [60],
         "Ascs": [12], "Descs": [5], "Hs": [16], "Polys": [0, 1, 2], "Scales": [10], "PageH": 130, "PageW": 170,
         "Kinds": ["smooth"], "Shifts": [0], "record_px": False, "via": "engine",
         # round 9: the numeric environment of the host process.  Env = "strict" = the space is ALSO run with floating-point errors
         # raised (np.errstate(all="raise")) and with warnings turned into errors, every heights container in turn, through both
         # entry points; only the fallback clause is claimed there, so every line of such a space must be Degenerate (StrictScope)
         "Env": "default", "EnvKinds": ["default"], "HKs": [None], "Vias": None}
    b.update(kw)
    return b


def tla_constants(b, legacy=False, mut="none"):
    s = lambda xs: set(int(x) + OFF for x in xs)
    return {"Family": b["Family"], "Legacy": bool(legacy), "Mut": mut, "Off": OFF, "Env": b.get("Env", "default"),
            "Ns": set(b["Ns"]), "DXs": set(b["DXs"]), "DYs": s(b["DYs"]), "Curvs": s(b["Curvs"]),
            "X0s": s(b["X0s"]), "Y0s": s(b["Y0s"]), "Ascs": set(b["Ascs"]), "Descs": set(b["Descs"]),
            "Hs": set(b["Hs"]), "Polys": set(b["Polys"]), "Scales": set(b["Scales"]),
            "PageH": b["PageH"], "PageW": b["PageW"], "Kinds": set(b["Kinds"]), "Shifts": s(b["Shifts"])}


def mk_pts(n, x0, y0, dx, dy, c):
    return [[x0 + i * dx, y0 + i * dy + c * i * (n - 1 - i)] for i in range(n)]


def heights_of(case):
    """the line's heights in one of the container / element types real layouts carry (a Python list after construction, a
    float64 array after PAGE XML import, float32 / int arrays from detectors); same values, chosen by a hash of the case"""
    a, d = case["asc"], case["desc"]
    k = case.get("hk")          # round 9: a named container kind (strict-environment spaces, repeat sessions)
    if k is None:
        k = (7 * a + 3 * d + sum(x + 2 * y for x, y in case["pts"]) + case["poly"]) % 4
    if k == 0:
        return [a, d]
    if k == 1:
        return np.array([a, d], dtype=np.float64)
    if k == 2:
        return np.array([a, d], dtype=np.float32)
    if k == 4:
        return (float(a), float(d))
    return [np.float64(a), np.float64(d)]


HK_NAMES = {None: "hash-chosen", 0: "list", 1: "float64 array", 2: "float32 array", 3: "list of np.float64", 4: "tuple"}


def grid_line(pts, asc, desc, h, sc):
    hs = asc + desc
    return (all(p[1] == pts[0][1] for p in pts) and sc == 10 and hs > 0 and h > 1 and hs % (h - 1) == 0
            and pts[-1][0] - pts[0][0] > 0)


def enumerate_cases(b):
    """mirror of Cropper!Init: the same configurations TLC starts from (count compared with TLC's initial states)"""
    out, seen = [], set()
    for n, x0, y0, dx, dy, c in itertools.product(b["Ns"], b["X0s"], b["Y0s"], b["DXs"], b["DYs"], b["Curvs"]):
        if b["Family"] == "grid" and (dy != 0 or c != 0):
            continue
        for asc, desc, h, poly, sc, kind, s in itertools.product(b["Ascs"], b["Descs"], b["Hs"], b["Polys"],
                                                                 b["Scales"], b["Kinds"], b["Shifts"]):
            pts = mk_pts(n, x0 + s, y0 + s, dx, dy, c)
            if b["Family"] == "grid" and not grid_line(pts, asc, desc, h, sc):
                continue
            key = (tuple(map(tuple, pts)), asc, desc, h, poly, sc, kind, s)
            if key in seen:          # e.g. the bump has no effect on 2-point baselines: one TLC state
                continue
            seen.add(key)
            # round 9: each configuration once per (numeric environment, heights container, entry point) of the space
            for env, hk, via in itertools.product(b.get("EnvKinds") or ["default"], b.get("HKs") or [None],
                                                  b.get("Vias") or [b.get("via", "engine")]):
                c_ = {"pts": pts, "asc": asc, "desc": desc, "H": h, "poly": poly, "sc": sc,
                      "page": {"kind": kind, "h": b["PageH"] + s, "w": b["PageW"] + s, "ox": s, "oy": s},
                      "base": {"h": b["PageH"], "w": b["PageW"]}, "record_px": bool(b["record_px"]),
                      "shift": s, "gen": [n, x0, y0, dx, dy, c], "via": via}
                if env != "default":
                    c_["env"] = env
                if hk is not None:
                    c_["hk"] = hk
                out.append(c_)
    return out


def multiplicity(b):
    """executions per configuration TLC starts from (environments x heights containers x entry points)"""
    return len(b.get("EnvKinds") or ["default"]) * len(b.get("HKs") or [None]) * len(b.get("Vias") or [1])


# ----------------------------------------------------------------------------------------------- sessions
def dense_pts(n, x0, y0, dx, sl, amp):
    """n integer points dx px apart in x, on a chord of slope sl/16 with a sine bump of amp px (mild curvature)"""
    return [[x0 + i * dx, y0 + int(round(i * dx * sl / 16.0 + (amp * math.sin(math.pi * i / (n - 1)) if n > 2 else 0.0)))]
            for i in range(n)]


def session_sizes(tier, rng):
    """numbers of baseline points: the 2..5 of the enumerated spaces, then across 64 / 128 / 256 / 512 / 1024 (dense baselines as
    imported from external PAGE XML or produced by polyline detectors) plus sampled ones"""
    ns = [2, 5, 65, 128, 130, 200, 257, 300, 513, 1030] + [rng.randrange(66, 1100) for _ in range(2)]
    if tier == "thorough":
        ns += [4, 64, 127, 129, 255, 256, 1024, 1025, 2050, 3000] + [rng.randrange(66, 3000) for _ in range(8)]
    return ns


def sessions(tier, seed):
    """Sampled sessions (not enumerated by TLC, see Cropper_Trace): one baseline + heights + crop height per session, cropped by
    long-lived croppers of several configurations one after the other - the three interpolation orders at scale 1, another scale,
    a configuration used before again - some calls right after a call that fails.  The objects live on across sessions."""
    import random
    rng = random.Random(7919 * (seed + 1))
    out = []
    for k, n in enumerate(session_sizes(tier, rng)):
        long_ = 12500 if n > 1100 else 5200
        dx = rng.choice([d for d in ([12, 23, 37] if n <= 5 else [4, 5, 7, 12]) if (n - 1) * d <= long_] or [4])
        chord_x = (n - 1) * dx
        sl = rng.choice([v for v in range(-12, 13) if abs(chord_x * v) <= 16 * 1200])
        amp = rng.choice([0, 3, 6, -5])
        sc2 = rng.choice([8, 12, 15])
        # crop widths stay below 16000 columns (cv2.remap addresses images with 16-bit integers)
        combos = [(a, d, h) for (a, d) in ((12, 5), (22, 10), (20, 8), (30, 12)) for h in (16, 32, 48, 64)
                  if 1.3 * chord_x * h * 10 <= 16000 * (a + d) * 8]
        asc, desc, h = rng.choice(combos or [(30, 12, 16)])
        rel = dense_pts(n, 0, 0, dx, sl, amp)
        x0 = -20 if k % 4 == 3 else 30                       # every fourth line starts left of the page
        y0 = 10 + int(math.ceil(1.5 * asc)) - min(p[1] for p in rel)
        pts = [[x0 + p[0], y0 + p[1]] for p in rel]
        ph = max(p[1] for p in pts) + int(math.ceil(1.5 * desc)) + 12
        pw = max(p[0] for p in pts) + 40
        p2 = rng.choice([0, 1, 2])
        calls = [(0, 10, False), (1, 10, False), (2, 10, True), (p2, sc2, False), ((p2 + 1) % 3, sc2, False), (p2, 10, True)]
        via = "linecropper" if k % 3 == 2 else "engine"
        out.append([{"pts": pts, "asc": asc, "desc": desc, "H": h, "poly": poly, "sc": sc,
                     "page": {"kind": "rows", "h": ph, "w": pw, "ox": 0, "oy": 0}, "base": {"h": ph, "w": pw},
                     "record_px": False, "shift": 0, "gen": [n, x0, y0, dx, sl, amp], "via": via,
                     "long_lived": True, "after_failure": bool(fail)} for poly, sc, fail in calls])
    return out


def repeat_sessions(tier, seed):
    """Round 9 - the SAME line cropped more than once.  Real callers keep the line (TextLine.heights: a float64 array after layout
    detection, a float32 array / list / tuple elsewhere) and crop it again: baseline refinement followed by the final crop, a page run
    through LineCropper.process_page twice.  One session = one line whose heights OBJECT (and, on the LineCropper route, whose
    TextLine / PageLayout objects) is handed to the same long-lived cropper `REPEATS` times at a scale != 1.  Every call is judged
    against the line's heights as the caller set them (width clause, band clause 12) and calls 2.. carry the first call's crop as the
    reference of the same-pixels clause.  Sampled, trace-validated only (like the other sessions)."""
    import random
    rng = random.Random(104729 * (seed + 1))
    th = tier == "thorough"
    out = []
    k = 0
    for hk in (1, 2, 0, 3, 4):
        for sc in ((8, 15, 12, 10) if th else (8, 15)):
            for via in ("engine", "linecropper"):
                for poly in ((0, 1, 2) if th else ((k + (hk == 1)) % 3,)):
                    n = rng.choice([2, 3, 4, 5])
                    dx = rng.choice([110, 124, 139]) // (n - 1)
                    sl = rng.choice([-3, -1, 0, 2, 4])
                    amp = rng.choice([0, 2, -2]) if n > 2 else 0
                    asc, desc, h = rng.choice([(12, 5, 16), (22, 10, 32), (20, 8, 16)])
                    rel = dense_pts(n, 0, 0, dx, sl, amp)
                    x0 = 30
                    y0 = 10 + int(math.ceil(1.5 * asc)) - min(p[1] for p in rel)
                    pts = [[x0 + p[0], y0 + p[1]] for p in rel]
                    ph = max(p[1] for p in pts) + int(math.ceil(1.5 * desc)) + 12
                    pw = max(p[0] for p in pts) + 40
                    call = {"pts": pts, "asc": asc, "desc": desc, "H": h, "poly": poly, "sc": sc,
                            "page": {"kind": "rows", "h": ph, "w": pw, "ox": 0, "oy": 0}, "base": {"h": ph, "w": pw},
                            "record_px": True, "shift": 0, "gen": [n, x0, y0, dx, sl, amp], "via": via,
                            "long_lived": True, "after_failure": False, "hk": hk, "keep": "rep-%d" % k}
                    out.append([dict(call, repeat=r + 1) for r in range(REPEATS)])
                    k += 1
    return out


REPEATS = 3


def run_sessions(sess):
    """every call of every session, in order, in THIS process; a case carries the earlier calls of its session (what replay re-runs)"""
    reset_long_lived()
    cases, traces = [], []
    for s in sess:
        first = None
        for k, c in enumerate(s):
            t = run_case(c)
            c = dict(c, session=s[:k])
            if c.get("keep"):           # repeat sessions: the first crop of the line is the reference of the later ones
                if k == 0:
                    first = t
                elif first["px"] and t["px"]:
                    t["ref"] = first["px"]
                    c["ref"] = t["ref"]
            traces.append(t)
            cases.append(c)
    return cases, traces


def replay_case(case):
    if case.get("long_lived"):
        reset_long_lived()
        first = None
        for c in case.get("session") or []:
            t = run_case(c)
            first = first or t
        tr = run_case(case)
        if case.get("keep") and first is not None and first["px"] and tr["px"]:
            tr["ref"] = first["px"]          # judged against the first crop of THIS replay (not the stored one)
            case["ref"] = tr["ref"]
        return tr
    return run_case(case)


# ----------------------------------------------------------------------------------------------- pages
def _val_rows(y):
    return ((y * 37 + 11) % 251) + 1


_SMOOTH = {}


def _smooth(bh, bw):
    key = (bh, bw)
    if key not in _SMOOTH:
        yy, xx = np.mgrid[0:bh, 0:bw].astype(float)
        pat = 110 + 60 * np.sin(xx / 14.0) * np.cos(yy / 11.0) + 40 * np.sin((xx + yy) / 19.0)
        wx = np.where((xx >= MARGIN) & (xx < bw - MARGIN), np.sin(np.pi * (xx - MARGIN) / (bw - 2 * MARGIN)) ** 2, 0.0)
        wy = np.where((yy >= MARGIN) & (yy < bh - MARGIN), np.sin(np.pi * (yy - MARGIN) / (bh - 2 * MARGIN)) ** 2, 0.0)
        _SMOOTH[key] = np.floor(pat * wx * wy).astype(np.uint8)
    return _SMOOTH[key]


def paint(page, base):
    """page = {kind, h, w, ox, oy}: pixel (x, y) shows Val(kind, x - ox, y - oy); zero for negative content coordinates."""
    h, w, ox, oy = page["h"], page["w"], page["ox"], page["oy"]
    ys = np.arange(h) - oy
    xs = np.arange(w) - ox
    if page["kind"] == "rows":
        col = np.where(ys >= 0, _val_rows(ys), 0)
        g = np.repeat(col[:, None], w, 1) * (xs >= 0)[None, :]
    elif page["kind"] == "cols":
        row = np.where((xs >= 0) & (xs <= 250), xs, 0)
        g = np.repeat(row[None, :], h, 0) * (ys >= 0)[:, None]
    else:
        sm = _smooth(base["h"], base["w"])
        g = np.zeros((h, w), dtype=np.int64)
        yv = (ys >= 0) & (ys < sm.shape[0])
        xv = (xs >= 0) & (xs < sm.shape[1])
        g[np.ix_(yv, xv)] = sm[np.ix_(ys[yv], xs[xv])]
    g = g.astype(np.uint8)
    return np.ascontiguousarray(np.repeat(g[:, :, None], 3, 2))


_LAST_PAGE = [None, None]


def _session_page(case):
    """calls of one session get the same page image object (as the pipeline hands one image to one cropper after the other)"""
    key = repr((sorted(case["page"].items()), sorted(case["base"].items())))
    if _LAST_PAGE[0] != key:
        _LAST_PAGE[0], _LAST_PAGE[1] = key, paint(case["page"], case["base"])
    return _LAST_PAGE[1]


# ----------------------------------------------------------------------------------------------- recorder
class _Cv2Proxy:
    """stands in for the cv2 module inside crop_engine so that the source image of each remap call is seen"""
    def __init__(self):
        self.calls = []
        self.page = None

    def __getattr__(self, name):
        return getattr(cv2, name)

    def remap(self, src, *a, **k):
        self.calls.append("general" if src is self.page else "fast")
        return cv2.remap(src, *a, **k)


_PROXY = _Cv2Proxy()


def install_proxy():
    ce_mod.cv2 = _PROXY


def run_case(case):
    """Execute the real crop() once; every exception of the real code is part of the observation."""
    install_proxy()
    img = _session_page(case) if case.get("long_lived") else paint(case["page"], case["base"])
    ev = {"inp": "none", "cwin": 0, "path": "none", "kind": "none", "h": 0, "w": 0}
    rec = {"pts": case["pts"], "asc": case["asc"], "desc": case["desc"], "H": case["H"], "poly": case["poly"],
           "sc": case["sc"], "page": case["page"], "outcome": "ok", "ev": ev, "px": [], "ref": [], "msg": False, "corners": [],
           "env": case.get("env", "default"), "hk": HK_NAMES[case.get("hk")], "call": int(case.get("repeat", 1)), "hafter": []}
    heights = _kept(case).setdefault("heights", heights_of(case)) if case.get("keep") else heights_of(case)
    lc = None
    if case.get("via") == "linecropper":        # the pipeline's wrapper (page_parser.LineCropper.process_page) around the same engine
        lc = _long_lived(case) if case.get("long_lived") else _line_cropper(case)
        ce = lc.crop_engine
    elif case.get("long_lived"):
        ce = _long_lived(case)
    else:
        ce = EngineLineCropper(line_height=case["H"], poly=case["poly"], scale=case["sc"] / 10)
    if case.get("after_failure"):
        _failing_call(lc if lc is not None else ce, img)
    real_inputs, real_remap = ce.get_crop_inputs, ce.fast_remap
    _PROXY.calls = []
    _PROXY.page = img

    def inputs(*a, **k):
        try:
            co = real_inputs(*a, **k)
        except BaseException:
            ev["inp"] = "raise"
            raise
        ev["inp"] = "ok"
        ev["cwin"] = int(co.shape[1]) if getattr(co, "ndim", 0) == 3 else 0
        rec["corners"] = _corners(co)
        return co

    def remap(*a, **k):
        try:
            r = real_remap(*a, **k)
        except BaseException:
            ev["path"] = "raise"
            raise
        ev["path"] = _PROXY.calls[-1] if _PROXY.calls else "general"
        return r

    ce.get_crop_inputs = inputs
    ce.fast_remap = remap
    buf = io.StringIO()
    crop = None
    try:
        with contextlib.redirect_stdout(buf), host_environment(rec["env"]):
            if lc is not None:
                crop = _process_page(lc, img, case, heights)
            else:
                base = np.array(case["pts"], dtype=float)
                if case.get("keep"):          # the caller keeps the baseline object as well
                    base = _kept(case).setdefault("baseline", base)
                crop = ce.crop(img, base, heights)
    except Exception as ex:       # the statement says "never an error": recorded, not a harness failure
        rec["outcome"] = "exception:" + type(ex).__name__
    finally:
        _PROXY.page = None
        for name in ("get_crop_inputs", "fast_remap"):      # long-lived objects: take the observers off again
            ce.__dict__.pop(name, None)
    rec["msg"] = "line crop failed" in buf.getvalue()
    rec["hafter"] = _fixed_heights(_kept(case)["line"].heights if case.get("keep") and "line" in _kept(case) else heights)
    if ev["inp"] == "raise":
        ev["path"] = "skipped"
    if crop is not None:
        crop = np.asarray(crop)
        if crop.ndim != 3:
            rec["outcome"] = "exception:BadShape"
        else:
            ev["h"], ev["w"] = int(crop.shape[0]), int(crop.shape[1])
            fell_back = ev["inp"] == "raise" or ev["path"] == "raise" or rec["msg"]
            ev["kind"] = "blank" if fell_back else "real"
            if ev["inp"] == "none":      # the wrappers were not reached (restructured code): classify by the message only
                ev["inp"], ev["path"] = ("raise", "skipped") if fell_back else ("ok", "general")
                ev["cwin"] = 0 if fell_back else ev["w"]
            if case.get("record_px") and crop.size and crop.shape[0] * crop.shape[1] <= 20000:
                rec["px"] = [[int(v) for v in row] for row in crop[:, :, 0]]
    return rec


FP = 16           # fixed point of recorded sample positions: 1/16 px
FP_CLAMP = 1 << 20


@contextlib.contextmanager
def host_environment(env):
    """process-wide numeric state a hosting application may have chosen (numpy error state, warnings filter):
    "default" = what the check always used (everything ignored); "fperr" = np.seterr(all="raise");
    "warnerr" = numpy's default error state with warnings turned into errors (python -W error)"""
    with warnings.catch_warnings():
        if env == "fperr":
            warnings.simplefilter("ignore")
            ctx = np.errstate(all="raise")
        elif env == "warnerr":
            warnings.simplefilter("error")
            ctx = np.errstate(divide="warn", over="warn", under="ignore", invalid="warn")
        else:
            warnings.simplefilter("ignore")
            ctx = np.errstate(all="ignore")
        with ctx:
            yield


def _fixed_heights(h):
    """the heights the caller holds after the call, 1/16 units (information for the report; [] when unreadable)"""
    try:
        with np.errstate(all="ignore"):
            return [int(np.clip(round(float(h[0]) * FP), -FP_CLAMP, FP_CLAMP)), int(np.clip(round(float(h[1]) * FP), -FP_CLAMP, FP_CLAMP))]
    except Exception:
        return []


def _corners(co):
    """the four corners of the coordinate grid get_crop_inputs returned - <<top-left, top-right, bottom-left, bottom-right>>, each
    (x, y) in 1/16 px (non-finite or absurd values are clamped: the trace spec then sees a position far from the baseline)"""
    try:
        with host_environment("default"):        # the observer's own arithmetic never runs in the strict environment
            co = np.asarray(co, dtype=np.float64)
            if co.ndim != 3 or co.shape[2] != 2 or co.shape[0] < 1 or co.shape[1] < 1:
                return []
            out = []
            for r, c in ((0, 0), (0, -1), (-1, 0), (-1, -1)):
                v = np.nan_to_num(co[r, c] * FP, nan=FP_CLAMP, posinf=FP_CLAMP, neginf=-FP_CLAMP)
                out.append([int(np.clip(np.round(v[0]), -FP_CLAMP, FP_CLAMP)), int(np.clip(np.round(v[1]), -FP_CLAMP, FP_CLAMP))])
            return out
    except Exception:
        return []


# Long-lived croppers (C10 sessions): the pipeline keeps ONE LineCropper / EngineLineCropper per configuration for the life of the
# process and hands it line after line, page after page; several configurations may live side by side.  A session of the driver
# does the same: the objects below are created once per (kind, height, interpolation, scale) and re-used by every later call.
_LONG_LIVED = {}
_KEPT = {}        # repeat sessions: what the CALLER keeps between the crops of one line (heights object, TextLine, PageLayout)


def reset_long_lived():
    _LONG_LIVED.clear()
    _KEPT.clear()


def _kept(case):
    return _KEPT.setdefault(case["keep"], {})


def _long_lived(case):
    key = (case.get("via", "engine"), case["H"], case["poly"], case["sc"])
    if key not in _LONG_LIVED:
        _LONG_LIVED[key] = (_line_cropper(case) if case.get("via") == "linecropper" else
                            EngineLineCropper(line_height=case["H"], poly=case["poly"], scale=case["sc"] / 10))
    return _LONG_LIVED[key]


def _failing_call(obj, img):
    """Before some calls of a session the same long-lived object is handed a line outside the scope (a single-point baseline with
    zero heights, then an empty one): the call falls back or raises half-way.  Whatever it does there, nothing may be left behind
    for the next line."""
    for pts in ([[5, 5]], []):
        try:
            with contextlib.redirect_stdout(io.StringIO()), np.errstate(all="ignore"), warnings.catch_warnings():
                warnings.simplefilter("ignore")
                if hasattr(obj, "process_page"):
                    bad = {"pts": pts, "asc": 0, "desc": 0, "poly": 0}
                    _process_page(obj, img, bad)
                else:
                    obj.crop(img, np.array(pts, dtype=float).reshape(-1, 2), [0, 0])
        except BaseException:
            pass


def _line_cropper(case):
    import configparser
    from pero_ocr.document_ocr.page_parser import LineCropper
    cp = configparser.ConfigParser()
    cp.read_string("[LINE_CROPPER]\nINTERP = %d\nLINE_SCALE = %s\nLINE_HEIGHT = %d\n" % (case["poly"], case["sc"] / 10, case["H"]))
    return LineCropper(cp["LINE_CROPPER"])


def _process_page(lc, img, case, heights=None):
    from pero_ocr.core.layout import PageLayout, RegionLayout, TextLine
    kept = _kept(case) if case.get("keep") else {}
    if "layout" not in kept:          # repeat sessions: the same PageLayout / TextLine is processed again
        pl = PageLayout(id="p", page_size=(img.shape[0], img.shape[1]))
        reg = RegionLayout("r1", np.array([[0, 0], [img.shape[1], 0], [img.shape[1], img.shape[0]], [0, img.shape[0]]]))
        reg.lines.append(TextLine(id="l1", baseline=np.array(case["pts"], dtype=float), polygon=np.array([[0, 0], [1, 0], [1, 1]]),
                                  heights=heights_of(case) if heights is None else heights))
        pl.regions.append(reg)
        kept["layout"], kept["line"] = pl, reg.lines[0]
    pl, line = kept["layout"], kept["line"]
    line.crop = None
    lc.process_page(img, pl)
    return line.crop


def label(case):
    pts = case["pts"]
    shown = str(pts) if len(pts) <= 8 else "%s ... %s (%d points)" % (str(pts[:3])[:-1], str(pts[-2:])[1:], len(pts))
    extra = ""
    if case.get("env"):
        extra += " [host environment %s]" % {"fperr": "np.seterr(all='raise')", "warnerr": "warnings as errors"}.get(case["env"], case["env"])
    if case.get("hk") is not None:
        extra += " [heights as %s]" % HK_NAMES[case["hk"]]
    if case.get("keep"):
        extra += " [crop %d of the same line, the caller keeps the heights object]" % case.get("repeat", 1)
    if case.get("long_lived"):
        extra += " [call %d of a session on long-lived %s objects%s]" % (
            len(case.get("session") or []) + 1, "LineCropper" if case.get("via") == "linecropper" else "EngineLineCropper",
            ", after a failing call" if case.get("after_failure") else "")
    return "pts=%s heights=[%d,%d] H=%d poly=%d scale=%.1f page=%s%s" % (
        shown, case["asc"], case["desc"], case["H"], case["poly"], case["sc"] / 10, case["page"], extra)


def frac_high(pts):
    dx, dy = pts[-1][0] - pts[0][0], pts[-1][1] - pts[0][1]
    s = dx * dx + dy * dy
    k = math.isqrt(s)
    return (10 * k + 9) ** 2 <= 100 * s


def integer_length(pts):
    dx, dy = pts[-1][0] - pts[0][0], pts[-1][1] - pts[0][1]
    s = dx * dx + dy * dy
    return dy != 0 and math.isqrt(s) ** 2 == s
