------------------------- MODULE CtcDecoder_Trace -------------------------
(* Trace layer for CtcDecoder: a recorded execution of the real CTCPrefixLogRawNumpyDecoder
   (beam after every frame = decode of the first t rows; final bag; best_hyp(); returned LM state)
   is accepted iff it is a behaviour of CtcDecoder.  The Pb/Pnb split is not logged: TLC infers it.
   Masses are logged in thousandths of one unit of D^t (resp. M^len) so that a non-integer mass
   produced by a changed implementation is a mismatch, not a parse error.                        *)
EXTENDS CtcDecoder, TraceKit
VARIABLE tid

Tr == Traces[tid]

TInit == /\ tid \in 1..NTraces
         /\ mat = [i \in 1..T |-> [c \in Syms |-> Traces[tid].mat[i][c + 1]]]
         /\ t = 0 /\ phase = "run"
         /\ beam = (<<>> :> <<1, 0, 1>>)

ObsSet(n) == LET fr == Tr.frames[n] IN {<<fr[j].p, fr[j].s, fr[j].l>> : j \in 1..Len(fr)}
\* C02: transcripts of the returned hypotheses are pairwise distinct
ObsDistinct(n) == LET fr == Tr.frames[n] IN Cardinality({fr[j].p : j \in 1..Len(fr)}) = Len(fr)
\* Tr.support = TRUE: the matrix was rendered with its weight-1 entries as probabilities of 1e-6 (far below the default
\* pre-selection threshold exp(-10), the rest of the row renormalised).  The zero pattern - hence the SET of transcripts an
\* unpruned search returns - is that of the model's matrix, the masses are not: only the transcripts are compared.
Matches(n, b) == /\ ObsDistinct(n)
                 /\ IF Tr.support
                    THEN {Tr.frames[n][j].p : j \in 1..Len(Tr.frames[n])} = DOMAIN b
                    ELSE ObsSet(n) = {<<q, 1000 * (b[q][1] + b[q][2]), 1000 * b[q][3]>> : q \in DOMAIN b}

\* Tr.final_only = TRUE (absent = FALSE; history traces of driver c02.py): the call is one of several consecutive calls that
\* hand the decoder the very same long-lived array object (edited in place between calls, retried after a rejection, after a
\* call with the normalisation tolerance switched off) - nothing may come between them, so the beams after the earlier frames
\* are not observed (Tr.frames[1..T-1] is padding).  The call is accepted iff SOME behaviour of CtcDecoder from Init on the
\* matrix the array holds at that call ends in the returned bag (resp. is the rejection): the specification has no state
\* across calls, whatever the objects went through before.
FinalOnly == "final_only" \in DOMAIN Tr /\ Tr.final_only

\* C03 (driver c03.py, start-state / kept-array histories; Tr.lmown / Tr.eosown absent = nothing to say): the LM hands out arrays
\* it KEEPS (row views of its table, memoised batches).  What those arrays say after the line - one entry per distinct (history,
\* weights), thousandths of 1/M - must still be the LM's own distribution: "the model's own per-character scores" are not the
\* decoder's to change (an insertion bonus folded into them in place is counted again by every later call).
LmIntact == /\ ("lmown" \in DOMAIN Tr) =>
                 \A j \in 1..Len(Tr.lmown) : \A c \in Chars : Tr.lmown[j].w[c] = 1000 * LMw(Tr.lmown[j].h, c)
            /\ ("eosown" \in DOMAIN Tr) =>
                 \A j \in 1..Len(Tr.eosown) : Tr.eosown[j].e = 1000 * EosW(Tr.eosown[j].h)

TNext == /\ UNCHANGED tid
         /\ \/ /\ Tr.outcome = "ok" /\ Frame
               /\ (t + 1 < T) => Matches(t + 1, beam')
            \/ /\ Tr.outcome = "ok" /\ Finish
               /\ Matches(T, beam')
               \* C03: the transcript handed on maximises vis + scale * lm ...
               /\ Tr.support \/ Tr.best \in {q \in DOMAIN beam' : \A o \in DOMAIN beam' : Total(beam', q) >= Total(beam', o)}
               \* ... it is the hypothesis whose posterior is reported as the bag confidence ...
               /\ Tr.best \in {Tr.confset[j] : j \in 1..Len(Tr.confset)}
               \* ... and the LM state returned for carrying over belongs to such a hypothesis
               /\ Tr.has_h =>
                    \E q \in DOMAIN beam' :
                       /\ \A o \in DOMAIN beam' : Total(beam', q) >= Total(beam', o)
                       /\ Tr.hret = Hist0 \o q
               /\ LmIntact
            \/ /\ Tr.outcome = "rejected" /\ Reject
            \/ /\ FinalOnly /\ Tr.outcome = "ok" /\ t + 1 < T /\ Frame      \* unobserved intermediate beam

TAccept == TKMark(tid, t + (IF phase = "run" THEN 0 ELSE 1), phase # "run")
TPost == TKPost
ASSUME TKReset
=============================================================================
