-------------------------- MODULE TransformerCache --------------------------
(* Provenance-tag model of the decoding protocol of the transformer recogniser (C20):
   TransformerEngineLineOCR.transcribe_batch (greedy loop, alive mask, length cap, postprocess_decoded;
   pero_ocr/ocr_engine/transformer_ocr_engine.py:49-104) on top of one representative decoder layer
   (all layers run the same protocol) with its three caches that live in the module between calls
   (pero_ocr/ocr_engine/transformer.py): the self-attention q/k/v cache and the cross-attention cache
   (CustomMultiheadAttention.linear_cache, cached_forward lines 186-306) and DecoderLayer.memory_tgt (421-467).

   A cache is [alloc, bsz, cells]; cells[p][l] is the tag <<batch, line, position>> of the value stored for
   position p and batch row l, G = garbage left by torch.empty.  One Step = one iteration of `while True`
   (one Decoder.infer call with seq_len = step + 1); the symbol each line emits (boundary "b", ignore "i",
   character "c") is chosen nondeterministically - it stands for the arg-max of the network output.
   StartBatch = a new transcribe_batch call with n lines whose encoder output has e positions (the length cap is
   inputs.shape[-1] // 4 = e for the 4x sub-sampling front-end), cached or uncached.  Histories of calls on the
   same model object are explored up to MaxBatches.

   Variant = "ok" is the code as it is; the others are the defective variants of DESIGN.md Appendix B
   ("no_realloc": drop `or seq_len == 1`; "keep_memory": keep memory_tgt on batch-size change; "write_at_seq_len":
   write the cache at seq_len instead of seq_len - 1; "stop_any": stop when any line emits the boundary symbol).  *)
EXTENDS Naturals, Sequences, FiniteSets, TLC
CONSTANTS Sizes,        \* batch sizes
          EncLens,      \* encoder lengths ( = length caps)
          Syms,         \* subset of {"b", "i", "c"}
          Modes,        \* subset of BOOLEAN: is_cached values
          MaxBatches,
          Variant

MaxSize == CHOOSE m \in Sizes : \A o \in Sizes : m >= o
MaxEnc == CHOOSE m \in EncLens : \A o \in EncLens : m >= o
MaxSeq == MaxEnc + 2          \* max_seq_len of the model; the cap guarantees seq_len <= MaxEnc + 1 < max_seq_len
G == <<0, 0, 0>>
GRow == [l \in 1..MaxSize |-> G]
NoCache == [alloc |-> FALSE, bsz |-> 0, cells |-> [p \in 1..MaxSeq |-> GRow]]
Fresh(n) == [alloc |-> TRUE, bsz |-> n, cells |-> [p \in 1..MaxSeq |-> GRow]]

VARIABLES batch, size, enc, cached, step, phase,      \* the current transcribe_batch call
          hist, alive, emitted, result,               \* per line: symbols sampled, alive mask, partial_transcripts[1:], output
          selfc, crossc, mem,                          \* caches of the layer (persist between calls)
          stale, shapeErr, realloc                     \* history variables: a stale/garbage cell was read; shapes clashed
vars == <<batch, size, enc, cached, step, phase, hist, alive, emitted, result, selfc, crossc, mem, stale, shapeErr, realloc>>

Init == /\ batch = 0 /\ size = 0 /\ enc = 0 /\ cached = TRUE /\ step = 0 /\ phase = "idle"
        /\ hist = <<>> /\ alive = <<>> /\ emitted = <<>> /\ result = <<>>
        /\ selfc = NoCache /\ crossc = NoCache /\ mem = NoCache
        /\ stale = FALSE /\ shapeErr = FALSE /\ realloc = <<FALSE, FALSE, FALSE>>

StartBatch(n, e, c) ==
    /\ phase = "idle" /\ batch < MaxBatches /\ ~shapeErr
    /\ batch' = batch + 1 /\ size' = n /\ enc' = e /\ cached' = c /\ step' = 0 /\ phase' = "run"
    /\ hist' = [l \in 1..n |-> <<>>] /\ alive' = [l \in 1..n |-> TRUE] /\ emitted' = [l \in 1..n |-> <<>>]
    /\ result' = <<>>
    /\ UNCHANGED <<selfc, crossc, mem, stale, shapeErr, realloc>>

WriteRow(c, p, s) == [c EXCEPT !.cells[p] = [l \in 1..MaxSize |-> IF l <= size THEN <<batch, l, s>> ELSE c.cells[p][l]]]

\* one loop iteration with the symbols sym[l] sampled for the lines
StepWith(sym) ==
    /\ phase = "run" /\ ~shapeErr
    /\ LET s == step + 1
           wpos == IF Variant = "write_at_seq_len" THEN s + 1 ELSE s
           \* --- self-attention cache: (re)allocated when absent or at the first step, one row written per step,
           \*     keys/values of positions 1..s read
           sRe == cached /\ (~selfc.alloc \/ (s = 1 /\ Variant # "no_realloc"))
           sc0 == IF sRe THEN Fresh(size) ELSE selfc
           sc1 == IF cached THEN WriteRow(sc0, wpos, s) ELSE sc0
           selfBad == cached /\ \E p \in 1..s, l \in 1..size : sc1.cells[p][l] # <<batch, l, p>>
           \* --- cross-attention cache: projected encoder keys/values are computed only when it is (re)allocated
           cRe == cached /\ (~crossc.alloc \/ (s = 1 /\ Variant # "no_realloc"))
           cc1 == IF cRe THEN [alloc |-> TRUE, bsz |-> size,
                               cells |-> [p \in 1..MaxSeq |-> [l \in 1..MaxSize |-> IF p <= enc /\ l <= size THEN <<batch, l, p>> ELSE G]]]
                  ELSE crossc
           crossBad == cached /\ \E p \in 1..enc, l \in 1..size : cc1.cells[p][l] # <<batch, l, p>>
           \* --- memory_tgt (used in both modes): reset when the batch size differs, cell s written, cells 1..s handed on
           m0 == IF mem.alloc /\ mem.bsz # size /\ Variant # "keep_memory" THEN NoCache ELSE mem
           mRe == ~m0.alloc
           m1 == IF mRe THEN Fresh(size) ELSE m0
           m2 == WriteRow(m1, s, s)
           memBad == \E p \in 1..s, l \in 1..size : m2.cells[p][l] # <<batch, l, p>>
           clash == (cached /\ (sc1.bsz # size \/ cc1.bsz # size)) \/ m2.bsz # size
           \* --- the greedy loop
           al == [l \in 1..size |-> alive[l] /\ sym[l] # "b"]
           none == \A l \in 1..size : ~al[l]
           stop == none \/ s > enc \/ (Variant = "stop_any" /\ \E l \in 1..size : sym[l] = "b")
       IN /\ selfc' = sc1 /\ crossc' = cc1 /\ mem' = m2
          /\ realloc' = <<sRe, cRe, mRe>>
          /\ shapeErr' = clash
          /\ stale' = (stale \/ ((selfBad \/ crossBad \/ memBad) /\ ~clash))
          /\ hist' = [l \in 1..size |-> Append(hist[l], sym[l])]
          /\ alive' = al
          /\ step' = s
          /\ IF stop THEN phase' = "post" /\ emitted' = emitted
             ELSE phase' = "run" /\ emitted' = [l \in 1..size |-> Append(emitted[l], sym[l])]
    /\ UNCHANGED <<batch, size, enc, cached, result>>

\* postprocess_decoded: cut at the first boundary symbol, skip ignore symbols
RECURSIVE Post(_)
Post(sq) == IF sq = <<>> \/ Head(sq) = "b" THEN <<>>
            ELSE IF Head(sq) = "i" THEN Post(Tail(sq)) ELSE <<Head(sq)>> \o Post(Tail(sq))

Finish == /\ phase = "post"
          /\ result' = [l \in 1..size |-> Post(emitted[l])]
          /\ phase' = "idle"
          /\ UNCHANGED <<batch, size, enc, cached, step, hist, alive, emitted, selfc, crossc, mem, stale, shapeErr, realloc>>

Step == \E sym \in [1..size -> Syms] : StepWith(sym)
Next == (\E n \in Sizes, e \in EncLens, c \in Modes : StartBatch(n, e, c)) \/ Step \/ Finish
Spec == Init /\ [][Next]_vars /\ WF_vars(Step \/ Finish)

\* ======================================== properties (C20) ==========================================
\* nothing computed for an earlier batch, another line, another position, or left by torch.empty is ever read
NoStaleRead == ~stale
NoShapeError == ~shapeErr
\* the line decoded alone: its own symbols up to its first boundary symbol or the cap, ignore symbols dropped
RECURSIVE UpTo(_, _)
UpTo(sq, cap) == IF sq = <<>> \/ cap = 0 \/ Head(sq) = "b" THEN <<>> ELSE <<Head(sq)>> \o UpTo(Tail(sq), cap - 1)
Alone(sq, cap) == Post(UpTo(sq, cap))
Determined(sq, cap) == Len(sq) = cap + 1 \/ \E k \in 1..Len(sq) : sq[k] = "b"
\* each line's transcription is a function of its own symbols only (independent of the other lines of the batch) ...
LineIndependent == (phase = "idle" /\ batch > 0 /\ ~shapeErr) =>
                      \A l \in 1..size : Determined(hist[l], enc) /\ result[l] = Alone(hist[l], enc)
\* ... and free of boundary and ignore symbols
CleanTranscript == (phase = "idle" /\ batch > 0 /\ ~shapeErr) =>
                      \A l \in 1..size : \A k \in 1..Len(result[l]) : result[l][k] = "c"
StepBound == step <= enc + 1
\* every call returns
Terminates == (phase = "run") ~> (phase = "idle")
=============================================================================
