"""PIPELINE - growth beyond the listed properties (DESIGN.md section 8): the stage machine of
PageParser.process_page.  TLC checks spec/Pipeline.tla for every configuration x input-page state; each of those
initial states is executed on the real PageParser / PageOCR / PageDecoder glue code (stub cropper, stub OCR engine,
stub decoder) and the recorded run is validated by Pipeline_Trace.

Not a listed property: a rejected run is printed as PIPELINE-MISMATCH and makes the command exit 1, but no VIOLATION
line for any property id is produced.  Legacy=TRUE reproduces the TypeError of filter_confident_lines on a line
without confidence (an observation recorded in DESIGN.md section 12)."""
import itertools

import numpy as np
import scipy.sparse

from ..core import pmap

LEVEL = "model_checking"
NLINES = 2
THRESHOLD = 0.5
INVS = ["TypeOK", "OnlyDocumentedErrors", "Consistent", "OrderKept"]


def _logits(confident):
    # 3 frames x 3 symbols; confident: max posterior ~0.99 on every frame; diffuse: ~0.4
    hi = 6.0 if confident else 0.3
    m = np.array([[hi, 0.1, 0.2], [0.1, hi, 0.2], [0.2, 0.1, hi]], dtype=np.float32)
    return m


class StubCropper:
    def process_page(self, img, page_layout):
        for line in page_layout.lines_iterator():
            line.crop = np.full((4, 8, 3), 255 if line._verif_pass else 0, dtype=np.uint8)
        return page_layout


class StubLayoutParser:
    """stands for the chain of layout stages (spec/LayoutChain.tla): the lines are detected anew"""
    def process_page(self, img, page_layout):
        from pero_ocr.core.layout import TextLine
        for region in page_layout.regions:
            fresh = []
            for ln in region.lines:
                nl = TextLine(id=ln.id, baseline=ln.baseline.copy(), polygon=ln.polygon.copy(), heights=np.array(ln.heights))
                nl._verif_pass = ln._verif_pass
                fresh.append(nl)
            region.lines = fresh
        return page_layout


class StubEngine:
    characters = ["o", "c", "r"]

    def process_lines(self, crops, **kw):
        tr, lg, co = [], [], []
        for c in crops:
            tr.append("O")
            lg.append(scipy.sparse.csc_matrix(_logits(bool(c[0, 0, 0] > 127))))
            co.append([0, 3])
        return tr, lg, co


class StubBag:
    def best_hyp(self):
        return "D"


class StubDecoder:
    _lm = None

    def __call__(self, logits, **kw):
        return StubBag()


def build_parser(cfg):
    from pero_ocr.document_ocr.page_parser import PageParser, PageOCR, PageDecoder
    pp = PageParser.__new__(PageParser)
    pp.run_layout_parser = cfg["layout"]
    pp.run_line_cropper = cfg["crop"]
    pp.run_ocr = cfg["ocr"]
    pp.run_decoder = cfg["dec"]
    pp.filter_confident_lines_threshold = THRESHOLD if cfg["filter"] else -1
    pp.layout_parsers = [StubLayoutParser()]
    pp.line_cropper = StubCropper()
    ocr = PageOCR.__new__(PageOCR)
    ocr.ocr_engine = StubEngine()
    pp.ocr = ocr
    pp.decoder = PageDecoder(StubDecoder())
    return pp


def execute(case):
    import logging
    logging.disable(logging.CRITICAL)
    from pero_ocr.core.layout import PageLayout, RegionLayout, TextLine
    cfg, lines = case["cfg"], case["page"]
    pl = PageLayout(id="p", page_size=(100, 100))
    reg = RegionLayout("r", np.array([[0, 0], [99, 0], [99, 99], [0, 99]]))
    for i, ls in enumerate(lines, start=1):
        ln = TextLine(id=str(i), baseline=np.array([[5, 10 * i], [90, 10 * i]]),
                      polygon=np.array([[5, 10 * i - 4], [90, 10 * i - 4], [90, 10 * i + 2], [5, 10 * i + 2]]),
                      heights=np.array([4.0, 2.0]))
        if ls["logits"] == "loaded":
            ln.logits = scipy.sparse.csc_matrix(_logits(ls["pass"]))
            ln.characters = ["l", "o", "d"]
            ln.logit_coords = [0, 3]
        if ls["text"] == "loaded":
            ln.transcription = "L"
        if ls["conf"] == "loaded":
            ln.transcription_confidence = 0.9 if ls["loadedpass"] else 0.1
        ln._verif_pass = ls["pass"]
        reg.lines.append(ln)
    pl.regions.append(reg)
    rec = {"cfg": cfg, "page": lines, "outcome": "ok", "result": []}
    try:
        out = build_parser(cfg).process_page(np.zeros((100, 100, 3), dtype=np.uint8), pl)
        for ln in out.lines_iterator():
            lg = "none" if ln.logits is None else ("loaded" if ln.characters == ["l", "o", "d"] else "ocr")
            tx = {None: "none", "L": "loaded", "O": "ocr", "D": "dec"}.get(ln.transcription, "other")
            c = ln.transcription_confidence
            cf = "none" if c is None else ("loaded" if c in (0.9, 0.1) else "computed")
            rec["result"].append({"id": int(ln.id), "logits": lg, "text": tx, "conf": cf,
                                  "crop": "none" if ln.crop is None else "own"})
    except TypeError:
        rec["outcome"] = "TypeError"
    except Exception as ex:
        rec["outcome"] = type(ex).__name__
    return rec


def cases():
    cfgs = [dict(zip(("layout", "crop", "ocr", "dec", "filter"), bits)) for bits in itertools.product((False, True), repeat=5)]
    ls = [dict(zip(("logits", "text", "conf", "pass", "loadedpass"), v)) for v in itertools.product(
        ("none", "loaded"), ("none", "loaded"), ("none", "loaded"), (False, True), (False, True))]
    for cfg in cfgs:
        for page in itertools.product(ls, repeat=NLINES):
            yield {"cfg": cfg, "page": list(page)}


def run(ctx):
    ctx.rule = ("every configuration (layout/crop/ocr/decoder/filter on-off) x every input state of a %d-line page (logits, text, confidence "
                "present or not, above/below the filter threshold); non-trivial = at least one stage ran and the page finished" % NLINES)
    ctx.exhaustive = True
    ctx.tlc("Pipeline", constants={"NLines": NLINES, "Legacy": False}, invariants=INVS, properties=["Terminates"], spec="Spec",
            label="Pipeline repaired")
    ctx.tlc("Pipeline", constants={"NLines": NLINES, "Legacy": True}, invariants=INVS, spec="Spec",
            expect_violation="OnlyDocumentedErrors", label="Pipeline legacy (TypeError of the confidence filter)")
    cs = list(cases())
    execute(cs[0])
    traces = pmap(execute, cs)
    acc, rej = ctx.validate("Pipeline_Trace", traces, constants={"NLines": NLINES, "Legacy": True})
    for tr in traces:
        nt = tr["outcome"] == "ok" and any(tr["cfg"].values())
        ctx.count(1, repr((tr["cfg"], tr["page"])) if nt else None)
    ctx.sample(traces[len(traces) // 3])
    ctx.sample(traces[-1])
    good = next(t for t in traces if t["outcome"] == "ok" and t["result"])
    def corrupt(t):
        t["result"][0]["text"] = "ocr" if t["result"][0]["text"] != "ocr" else "dec"
        return t
    ctx.selftest_corrupt("Pipeline_Trace", good, corrupt, constants={"NLines": NLINES, "Legacy": True})
    for idx, prog in rej:
        tr = traces[idx]
        print("PIPELINE-MISMATCH stage=%d case=%s" % (prog, {k: tr[k] for k in ("cfg", "page", "outcome", "result")}))
        ctx.violations.append({"signature": "pipeline", "what": "run is not a behaviour of Pipeline.tla", "replay": None})
    ctx.notes["explanation"] = ("TLC on Pipeline.tla (32768 initial states for 2 lines) + every initial state executed on the real "
                                "PageParser.process_page with stub stages; validated by Pipeline_Trace with Legacy=TRUE (current behaviour)")


def replay(ctx, case):
    tr = execute(case)
    acc, rej = ctx.validate("Pipeline_Trace", [tr], constants={"NLines": NLINES, "Legacy": True})
    if rej:
        print("PIPELINE-MISMATCH", tr)
        ctx.violations.append({"signature": "pipeline", "what": "mismatch", "replay": None})
