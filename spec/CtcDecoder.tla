---------------------------- MODULE CtcDecoder ----------------------------
(* CTC prefix beam search with optional language-model fusion, in exact integer arithmetic.
   Implementation-shaped: one Frame action per iteration of the loop in
   CTCPrefixLogRawNumpyDecoder.__call__ (pero_ocr/decoding/decoders.py), a Finish action for the
   end-of-line score / bag construction, a Reject action for the normalisation guard.

   Probabilities are integer weights: row[c] / D with Sum(row) = D.  A mass accumulated over t frames
   has the implicit denominator D^t.  LM probabilities are LMw / M (a toy, history-dependent LM whose
   hidden state is the whole prefix), the insertion bonus is the weight Bonus (log Bonus in the code),
   the LM scale is the rational SP / SQ and scores are compared through the order-preserving image
   Vis^SQ * Lm^SP.  Symbol 0 is the blank here (the code keeps it last); characters are 1..NC.

   Properties C02 (NoOverCount, ExactUnpruned, Distinct by construction, RejectOnly) and
   C03 (LmExact, BestIsMax) are stated at the bottom.                                             *)
EXTENDS Naturals, Sequences, FiniteSets, TLC, SequencesExt, FiniteSetsExt
CONSTANTS T,        \* frames
          NC,       \* characters
          D,        \* weight denominator
          K,        \* beam width (>= 100 means "never prunes")
          Thr,      \* pre-selection: character c is considered in a frame iff row[c] > Thr  (0 = non-pruning)
          UseLm,    \* LM attached?
          M,        \* LM denominator
          SP, SQ,   \* LM scale SP / SQ
          Bonus,    \* insertion bonus weight
          Eos,      \* end-of-line modelling
          H0,       \* supplied initial LM state: 0 = none, c > 0 = history <<c>>
          Unnorm,   \* initial states include unnormalised matrices (for the Reject clause)
          SampleMats \* {} = every matrix of the shape; otherwise the set of matrices to start from (shapes beyond exhaustive reach)

Blank == 0
Chars == 1..NC
Syms == 0..NC
RowSum(r) == FoldSet(LAMBDA c, acc: acc + r[c], 0, Syms)
Rows == {r \in [Syms -> 0..D] : RowSum(r) = D}
AnyRows == [Syms -> 0..(D + 1)]       \* unnormalised rows: a single symbol may carry more than the whole mass (log-probability > 0)

VARIABLES mat, t, beam, phase
vars == <<mat, t, beam, phase>>

LastOf(p) == IF p = <<>> THEN Blank ELSE p[Len(p)]
RECURSIVE Pow(_, _)
Pow(b, e) == IF e = 0 THEN 1 ELSE b * Pow(b, e - 1)

\* ---- toy language model: hidden state = history (initial history \o prefix) ----------------------
Hist0 == IF H0 = 0 THEN <<>> ELSE <<H0>>
RECURSIVE HashOf(_)
HashOf(p) == IF p = <<>> THEN 1 ELSE (HashOf(Front(p)) * 31 + p[Len(p)]) % 97
LMw(h, c) == 1 + ((7 * HashOf(h) + 3 * c) % 3)       \* weight of character c after history h (over M)
EosW(h) == 1 + (HashOf(h) % 3)
RECURSIVE LmProd(_)
LmProd(p) == IF p = <<>> THEN 1
             ELSE LmProd(Front(p)) * LMw(Hist0 \o Front(p), p[Len(p)]) * Bonus

\* ---- exact CTC forward algorithm (the definition the property refers to) ----------------------------
RECURSIVE FwdB(_, _), FwdN(_, _)
FwdB(p, n) == IF n = 0 THEN (IF p = <<>> THEN 1 ELSE 0)
              ELSE (FwdB(p, n-1) + FwdN(p, n-1)) * mat[n][Blank]
FwdN(p, n) == IF n = 0 \/ p = <<>> THEN 0
              ELSE LET c == p[Len(p)]
                       q == Front(p)
                   IN  FwdN(p, n-1) * mat[n][c]
                       + (FwdB(q, n-1) + (IF LastOf(q) # c THEN FwdN(q, n-1) ELSE 0)) * mat[n][c]
Ctc(p, n) == FwdB(p, n) + FwdN(p, n)

Normalised == \A i \in 1..T : RowSum(mat[i]) = D

Init == /\ mat \in (IF SampleMats = {} THEN [1..T -> IF Unnorm THEN AnyRows ELSE Rows] ELSE SampleMats)
        /\ t = 0
        /\ phase = "run"
        /\ beam = (<<>> :> <<1, 0, 1>>)         \* prefix |-> <<Pb, Pnb, Plm>>

Selected(row) == {c \in Chars : row[c] > Thr}

\* candidates after one frame, before top-k: the code's total_Pb / total_Pnb / total_Plm
Cands(row) ==
  LET P == DOMAIN beam
      sel == Selected(row)
      ExtMass(p, c) == (beam[p][1] + (IF LastOf(p) # c THEN beam[p][2] ELSE 0)) * row[c]
      Stay(p) == LET pb == (beam[p][1] + beam[p][2]) * row[Blank]
                     cont == IF p = <<>> THEN 0 ELSE beam[p][2] * row[LastOf(p)]
                     \* adjust_for_prefix_joining: the mass of Front(p)+last reaches the copy already in the beam
                     join == IF p # <<>> /\ Front(p) \in P /\ LastOf(p) \in sel
                             THEN ExtMass(Front(p), LastOf(p)) ELSE 0
                 IN <<pb, (IF LastOf(p) \in sel THEN cont ELSE 0) + join, beam[p][3]>>
      exts == {pc \in P \X sel : Append(pc[1], pc[2]) \notin P}
  IN  IF sel = {}        \* all-pruned shortcut: only the blank path survives, beam untouched
      THEN [p \in P |-> <<(beam[p][1] + beam[p][2]) * row[Blank], 0, beam[p][3]>>]
      ELSE [q \in P \cup {Append(pc[1], pc[2]) : pc \in exts} |->
              IF q \in P THEN Stay(q)
              ELSE <<0, ExtMass(Front(q), LastOf(q)),
                     IF UseLm THEN beam[Front(q)][3] * LMw(Hist0 \o Front(q), LastOf(q)) * Bonus ELSE 1>>]

Vis(c, q) == c[q][1] + c[q][2]
\* order-preserving integer image of  vis * lm^(SP/SQ); LM masses of prefixes of different length are
\* brought to the common denominator M^T
Total(c, q) == IF UseLm THEN Pow(Vis(c, q), SQ) * Pow(c[q][3] * Pow(M, T - Len(q)), SP)
               ELSE Vis(c, q)

Frame == /\ phase = "run" /\ t < T /\ Normalised
         /\ LET row == mat[t+1]
                c == Cands(row)
                fin == {q \in DOMAIN c : Vis(c, q) > 0}
                kk == IF Cardinality(fin) < K THEN Cardinality(fin) ELSE K
            IN IF Selected(row) = {} THEN beam' = c
               ELSE \E S \in kSubset(kk, fin) :
                     /\ \A a \in S, b \in fin \ S : Total(c, a) >= Total(c, b)
                     /\ beam' = [q \in S |-> c[q]]
         /\ t' = t + 1
         /\ UNCHANGED <<mat, phase>>

Finish == /\ phase = "run" /\ t = T /\ Normalised
          /\ phase' = "done"
          /\ beam' = IF UseLm /\ Eos
                     THEN [q \in DOMAIN beam |-> <<beam[q][1], beam[q][2], beam[q][3] * EosW(Hist0 \o q)>>]
                     ELSE beam
          /\ UNCHANGED <<mat, t>>

Reject == /\ phase = "run" /\ t = 0 /\ ~Normalised
          /\ phase' = "rejected"
          /\ UNCHANGED <<mat, t, beam>>

Next == Frame \/ Finish \/ Reject
Spec == Init /\ [][Next]_vars

\* ======================================== properties ================================================
\* C02: no prefix is credited with more mass than the alignments that collapse to it
NoOverCount == phase # "rejected" =>
                  \A p \in DOMAIN beam : beam[p][1] <= FwdB(p, t) /\ beam[p][2] <= FwdN(p, t)
\* C02: without pruning the search is exact
AllPrefixes == UNION {[1..n -> Chars] : n \in 0..T}
ExactUnpruned == (K >= 100 /\ Thr = 0 /\ phase # "rejected") =>
                    /\ DOMAIN beam = {p \in AllPrefixes : Len(p) <= t /\ Ctc(p, t) > 0}
                    /\ \A p \in DOMAIN beam : beam[p][1] = FwdB(p, t) /\ beam[p][2] = FwdN(p, t)
\* C02: unnormalised input is only ever rejected
RejectOnly == (~Normalised) => (t = 0 /\ DOMAIN beam = {<<>>})
\* C03: the LM score of an entry is the LM's own product along its transcript, whatever the route
LmExact == (UseLm /\ phase = "run") => \A p \in DOMAIN beam : beam[p][3] = LmProd(p)
LmExactEos == (UseLm /\ phase = "done") =>
                 \A p \in DOMAIN beam : beam[p][3] = LmProd(p) * (IF Eos THEN EosW(Hist0 \o p) ELSE 1)
\* the set of transcripts a correct bag may hand on
FinalTotal(q) == Total(beam, q)
Maximisers == {q \in DOMAIN beam : \A o \in DOMAIN beam : FinalTotal(q) >= FinalTotal(o)}
=============================================================================
