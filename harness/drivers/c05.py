"""C05 - forced alignment is a valid, minimum-cost CTC alignment (DESIGN.md section 4 C05, Appendix A.8, Appendix D).

1. Design: TLC checks spec/ForcedAlign.tla (Build / Frame / Finish / Backtrack / AlignText = the steps of
   pero_ocr.core.force_alignment.force_align + align_text, every arg-min tie-break allowed) for every cost matrix over a small set
   of cost values, every label string up to MaxL and the chosen blank indices: the returned path collapses to the labels, its
   cost equals the brute-force minimum over all C^T frame labellings, failure <=> no alignment, feasibility boundary for repeated
   labels, per-character positions strictly increasing and most confident.  Seeded in-model defects (Mut) must violate.
2. Cases: the same space (complete, or a seeded sample of it) is executed by the real force_align / align_text.
3. Conformance: every recorded execution is judged by TLC (spec/ForcedAlign_Trace.tla) with the brute-force oracle: any optimal
   valid alignment and any most-confident frame is accepted.
4. History and scale: one process aligns a session of long lines one after another (same length, repeats at different places, one
   frame too few / just enough / more; > 64 and > 128 labels, > 255 symbols, > 1024 frames; failing calls in between; the caller's
   list and matrix objects re-used).  Each call is a kind = "scale" trace judged by TLC with the Viterbi recursion of the design
   module (proved equal to the brute force on the bounded shapes) evaluated on the recorded matrix.
"""
import itertools
import json
import random

import numpy as np

from ..core import pmap

LEVEL = "model_checking"
INF = 999
INVS = ["ValidPath", "Optimal", "SeqPosConsistent", "FailsIffNoAlignment", "FeasibilityBoundary", "PositionsOK"]

CLAUSES = {1: "an exception other than the documented ValueError",
           2: "failure reported although an alignment of finite cost exists",
           3: "success reported although no alignment exists",
           4: "result is not one symbol per frame",
           5: "returned path does not collapse to the labels",
           6: "returned path is not of minimal total cost",
           7: "return_seq_positions result is not the character numbering of an optimal alignment",
           8: "align_text positions malformed or not strictly increasing",
           9: "align_text position is not the most confident frame among the frames aligned to the character"}
SIGS = {1: "exception", 2: "false-failure", 3: "false-success", 4: "shape", 5: "collapse", 6: "not-minimal", 7: "seq-positions",
        8: "positions-order", 9: "positions-confidence"}


MC_CASES = """---- MODULE MC_ForcedAlignCases ----
EXTENDS ForcedAlign, Json
Cases == JsonDeserialize("cases.json")
InitCases == /\\ \\E k \\in 1..Len(Cases) :
                   /\\ cm = [f \\in 1..T |-> [s \\in Syms |-> Cases[k].cm[f][s + 1]]]
                   /\\ labels = Cases[k].labels
                   /\\ blank = Cases[k].blank
             /\\ phase = "start" /\\ t = 0 /\\ hist = <<>> /\\ path = <<>> /\\ pos = <<>>
====
"""


def cfg(T, C, MaxL, Vals, Blanks, frac=1.0, cap=None, design="check", column=False, coverage=True, unit="int"):
    """unit = "int": the cost matrix holds the integers themselves (float sums are exact); unit = "ln2": every cost k is rendered as
    k * ln 2 = -log of the probability 2^-k, so the real code adds irrational floats and exact ties may be broken by round-off
    (any optimal alignment is accepted, so this cannot raise a false alarm; the design run is shared with the "int" rendering)"""
    return {"T": T, "C": C, "MaxL": MaxL, "Vals": sorted(Vals), "Blanks": sorted(Blanks), "frac": frac, "cap": cap,
            "design": design, "column": column, "coverage": coverage, "unit": unit}


def configs(tier):
    q = [cfg(1, 3, 2, {0, 1, INF}, {0, 1, 2}, column=True, coverage=False),
         cfg(2, 3, 3, {0, 1, INF}, {0, 1, 2}, cap=12000, column=True),
         cfg(3, 3, 3, {0, 1}, {2}),
         cfg(3, 3, 2, {0, 1, 2}, {2}, cap=8000, design="cases", unit="ln2"),
         cfg(3, 3, 3, {0, INF}, {2}, coverage=False),
         cfg(5, 2, 3, {0, 1}, {1}, coverage=False)]
    if tier == "quick":
        return q
    return q + [cfg(3, 3, 2, {0, 1, INF}, {2}, cap=30000, coverage=False),
                cfg(3, 3, 3, {0, 1, INF}, {2}, cap=60000, coverage=False),
                cfg(2, 3, 3, {0, 2, 3, INF}, {0, 1}, cap=30000, coverage=False),
                cfg(4, 3, 4, {0, 1}, {2}, cap=60000, coverage=False),
                cfg(4, 3, 3, {0, INF}, {1}, cap=40000, coverage=False),
                cfg(6, 2, 4, {0, 1}, {1}, cap=40000, coverage=False),
                cfg(4, 3, 4, {0, 1, 2, INF}, {2}, cap=40000, design="cases", unit="ln2"),
                cfg(4, 4, 3, {0, 1, 2, INF}, {0, 3}, cap=40000, design="cases"),
                cfg(6, 3, 4, {0, 1, 2, INF}, {2}, cap=40000, design="cases")]


def tla_constants(c, mut="none"):
    return {"T": c["T"], "C": c["C"], "MaxL": c["MaxL"], "Vals": set(c["Vals"]), "Blanks": set(c["Blanks"]), "Mut": mut}


def _lab(c):
    return "T=%d C=%d MaxL=%d Vals=%s Blanks=%s%s" % (c["T"], c["C"], c["MaxL"], c["Vals"], c["Blanks"],
                                                     " costs*ln2" if c.get("unit") == "ln2" else "")


def label_strings(c):
    return [ls for n in range(1, c["MaxL"] + 1) for ls in itertools.product(range(c["C"]), repeat=n)]


def space_size(c):
    return len(c["Vals"]) ** (c["T"] * c["C"]) * len(label_strings(c)) * len(c["Blanks"])


def cases_of(c, rng):
    """the initial states of the TLC run (cost matrix x label string x blank), complete or a seeded sample"""
    t, nc = c["T"], c["C"]
    labs = label_strings(c)
    n = space_size(c)
    want = n if c["frac"] >= 1.0 else int(n * c["frac"])
    if c["cap"]:
        want = min(want, c["cap"])
    if want >= n:
        return [(m, ls, b) for m in itertools.product(c["Vals"], repeat=t * nc) for ls in labs for b in c["Blanks"]], True
    out = set()
    while len(out) < want:
        m = tuple(rng.choice(c["Vals"]) for _ in range(t * nc))
        out.add((m, rng.choice(labs), rng.choice(c["Blanks"])))
    return sorted(out), False


_SHAPE = {}


def _ints(seq):
    return [int(x) for x in seq]


def _run_case(case):
    from pero_ocr.core.force_alignment import force_align, align_text
    vals, labels, blank = case
    t, nc = _SHAPE["T"], _SHAPE["C"]
    m = np.array(vals, dtype=float).reshape(t, nc)
    m[m == INF] = np.inf
    if _SHAPE.get("unit") == "ln2":
        m = m * np.log(2.0)
    else:
        # the same logical costs in other element types (network outputs are float32): every alignment has exactly T frames, so a
        # common offset / scale changes no arg-min.  float32: 2^24 + 2c (exactly representable; sums exact in float64 only);
        # int64: the integers themselves (only without +inf).  The trace keeps the logical costs.
        variant = (sum((i + 3) * int(v) for i, v in enumerate(vals)) + 7 * len(labels) + blank) % 4
        if variant == 1:
            m = (m * 2 + 16777216.0).astype(np.float32)
        elif variant == 2 and INF not in vals:
            m = m.astype(np.int64)
    rec = {"kind": "case", "cm": [list(vals[i * nc:(i + 1) * nc]) for i in range(t)], "labels": list(labels), "blank": blank,
           "outcome": "ok", "path": [], "seq": [], "pos": []}
    outs = []
    for what in ("path", "seq", "pos"):
        try:
            if what == "path":
                rec["path"] = _ints(force_align(m.copy(), list(labels), blank))
            elif what == "seq":
                rec["seq"] = [int(x) + 1 for x in force_align(m.copy(), list(labels), blank, return_seq_positions=True)]
            else:
                rec["pos"] = [int(x) + 1 for x in align_text(m.copy(), np.array(labels), blank)]
            outs.append("ok")
        except ValueError:
            outs.append("error")
        except Exception as ex:   # part of the observation
            outs.append("exception:" + type(ex).__name__)
    # verdict-relevant: force_align and align_text (the return_seq_positions call is judged at drift level only)
    if outs[0] == outs[2]:
        rec["outcome"] = outs[0]
    else:
        rec["outcome"] = "inconsistent:" + "/".join(outs)
    rec["seq_outcome"] = outs[1]
    return rec


def warm():
    """compile the numba kernel once in the parent so that forked workers inherit it"""
    from pero_ocr.core.force_alignment import force_align, align_text
    m = np.array([[0.0, 1.0], [1.0, 0.0], [0.0, np.inf]])
    for mm in (m, m.astype(np.float32), np.array([[0, 1], [1, 0], [0, 2]], dtype=np.int64)):
        try:        # only the compilation matters here; whatever the real code does with this input is judged in the cases
            force_align(mm.copy(), [0], 1)
            align_text(mm.copy(), np.array([0]), 1)
        except Exception:
            pass


def execute(c, cases):
    global _SHAPE
    _SHAPE = {"T": c["T"], "C": c["C"], "unit": c.get("unit", "int")}
    return pmap(_run_case, cases, procs=6)


# ------------------------------------------------------------------------------------------------ scale / history session
# One process aligns many LONG lines one after another (what an OCR run does with the lines of a page): lines of the same length that
# differ only in where labels repeat (early, in the middle, beyond the 64th / 128th label, the last two), each with one frame too few
# (must fail), exactly enough frames, a few more and many more; more than 255 symbols; more than 1024 frames; float64 and float32
# matrices; a call that fails on the blank among the labels and a call with a label that is no symbol of the matrix (not judged) in
# between; the label list and the matrix buffer are the caller's long-lived objects, edited in place between the calls.  The costs are small integers (float sums
# exact).  Nothing is decided here: every call becomes a kind = "scale" trace, judged by TLC (ForcedAlign_Trace, SJudge) with the
# Viterbi recursion of the design module run on the recorded matrix.
SCALE_CFG = cfg(3, 3, 3, {0, 1}, {2})        # constants of the bounded shapes; a scale trace carries its own shape


def _needed(labels):
    return len(labels) + sum(1 for a, b in zip(labels, labels[1:]) if a == b)


def _line(rng, n, syms):
    """n labels out of syms without immediate repeats"""
    out = []
    while len(out) < n:
        x = rng.choice(syms)
        if not out or out[-1] != x:
            out.append(x)
    return out


def _with_repeats(base, places):
    out = list(base)
    for p in sorted(places):
        out[p + 1] = out[p]
    return out


def scale_session(seed, tier):
    """the calls of the session, in order: dicts {"T", "C", "blank", "labels", "mseed", "style", "dtype", "group"} (all derived from the
    seed, so that a replay file only needs seed + tier + index)"""
    rng = random.Random(seed * 7919 + 17)
    calls = []

    def group(name, n, nsym, blank, variants, frames, first_plain, dtype):
        syms = [x for x in range(nsym) if x != blank]
        base = _line(rng, n, syms)
        lines = [_with_repeats(base, v) for v in variants]
        if not first_plain:
            lines.reverse()
        for li, lab in enumerate(lines):
            need = _needed(lab)
            for fr in frames:
                t = need + fr if fr < 50 else fr * n // 10
                calls.append({"group": name, "T": t, "C": nsym, "blank": blank, "labels": list(lab), "mseed": rng.randrange(1 << 30),
                              "style": ["peaked", "flat"][(li + len(calls)) % 2], "dtype": dtype})

    # more than 64 labels; the plain line first, then lines that differ from it only in where two equal labels meet
    group("L72", 72, 90, 89, [(), (70,), (3,), (40, 66), (3, 70)], [-1, 0, 1, 21], True, "float64")
    calls.append({"group": "blank-among-labels", "T": 80, "C": 90, "blank": 5, "labels": [1, 2, 5, 7] * 18, "mseed": 1, "style": "flat",
                  "dtype": "float64"})
    calls.append({"group": "unusable", "T": 80, "C": 90, "blank": 89, "labels": [1, 2, 3] * 24, "mseed": 2, "style": "flat",
                  "dtype": "float64", "unjudged": True})
    # ... and in the opposite order: the lines with equal neighbours first, the plain line of that length last
    group("L67", 67, 5, 0, [(), (65,), (64,), (1, 30)], [-1, 0, 2], False, "float32")
    # more than 127 labels (more than 255 HMM states), more than 255 symbols, the blank in the middle of the symbol range
    group("L130", 130, 300, 140, [(), (128,), (100,)], [-1, 0, 3], True, "float32")
    # more than 1024 frames for a short line
    group("T1100", 9, 4, 3, [(), (7,)], [0, 1230], True, "float64")
    if tier != "quick":
        group("L260", 260, 600, 0, [(), (258,), (3,), (200, 257)], [-1, 0, 5, 13], False, "float32")
        group("L72b", 72, 90, 0, [(68,), (), (69,), (5,)], [-1, 0, 1, 15], True, "float32")
        group("T2100", 20, 6, 2, [(), (18,), (1,)], [0, 1050], True, "float32")
    return calls


def _scale_matrix(call):
    """T x C integer costs (float sums exact); "peaked": the network is fairly sure about the characters one after another and dislikes
    blanks, costs from a wide range (the optimal alignment is mostly unique, the frames of a character differ in confidence); "flat":
    costs from a small range (many ties).  A few +inf cells in every third matrix."""
    rng = np.random.RandomState(call["mseed"])
    t, nc, lab = call["T"], call["C"], call["labels"]
    if call["style"] == "flat":
        m = rng.randint(0, 6, size=(t, nc))
    else:
        m = rng.randint(800, 2500, size=(t, nc))
        step = t / float(len(lab))
        for k, x in enumerate(lab):
            lo, hi = int(k * step), max(int(k * step) + 1, int((k + 1) * step))
            m[lo:hi, x] = rng.randint(0, 400, size=hi - lo)
        m[:, call["blank"]] = rng.randint(600, 1200, size=t)
        m[m == INF] = INF - 1                     # 999 is the +inf of the trace format
    m = m.astype(np.int64)
    if call["mseed"] % 3 == 0:
        for k in range(max(2, t // 40)):          # anywhere, or where the alignment would like to pass (a label or the blank)
            m[rng.randint(0, t), rng.randint(0, nc) if k % 2 else (lab + [call["blank"]])[rng.randint(0, len(lab) + 1)]] = INF
    return m


def run_session(calls):
    """executes the calls in order in THIS process; returns one trace per judged call"""
    from pero_ocr.core.force_alignment import force_align, align_text
    traces = []
    labels_obj = []                                             # the caller's list, edited in place
    buffers = {}                                                # the caller's matrix buffers (one per element type and width)
    for idx, call in enumerate(calls):
        ints = _scale_matrix(call)
        t, nc = ints.shape
        key = (call["dtype"], nc)
        if key not in buffers or buffers[key].shape[0] < t:
            buffers[key] = np.zeros((max(t, 2 * len(call["labels"]) + 40), nc), dtype=call["dtype"])
        m = buffers[key][:t]
        m[...] = ints
        m[ints == INF] = np.inf
        labels_obj[:] = call["labels"]
        if call.get("unjudged"):
            # outside the scope of the statement (a label that is not a symbol of the matrix): whatever happens here is not judged,
            # but the calls after it are
            try:
                force_align(m, labels_obj[:-1] + [nc + 3], call["blank"])
            except Exception:
                pass
            continue
        rec = {"kind": "scale", "index": idx, "group": call["group"], "cm": [_ints(r) for r in ints], "labels": list(call["labels"]),
               "blank": call["blank"], "outcome": "ok", "path": [], "seq": [], "pos": [], "seq_outcome": "skipped"}
        outs = []
        for what in ("path", "pos"):
            try:
                if what == "path":
                    rec["path"] = _ints(force_align(m, labels_obj, call["blank"]))
                else:
                    rec["pos"] = [int(x) + 1 for x in align_text(m, np.array(labels_obj), call["blank"])]
                outs.append("ok")
            except ValueError:
                outs.append("error")
            except Exception as ex:   # part of the observation
                outs.append("exception:" + type(ex).__name__)
        rec["outcome"] = outs[0] if outs[0] == outs[1] else "inconsistent:" + "/".join(outs)
        if rec["outcome"] != "ok":
            rec["path"], rec["pos"] = [], []
        traces.append(rec)
    return traces


def _short(xs):
    return str(xs) if len(xs) <= 24 else "%s ... %s (%d values)" % (str(xs[:10])[:-1], str(xs[-8:])[1:], len(xs))


def judge_scale(ctx, seed, tier, traces):
    consts = trace_constants(SCALE_CFG)
    # the JVMs get contiguous slices: deal the calls out so that every slice holds a similar amount of work (frames x HMM states)
    shards = min(4, len(traces))
    by_cost = sorted(range(len(traces)), key=lambda i: -len(traces[i]["cm"]) * (2 * len(traces[i]["labels"]) + 1))
    per = -(-len(traces) // shards)
    order = sorted(range(len(traces)), key=lambda k: (k % shards) * per + k // shards)
    order = [by_cost[k] for k in order]
    acc, rej = ctx.validate("ForcedAlign_Trace", [traces[i] for i in order], constants=consts, shards=shards, jvm_mem="2g",
                            label="ForcedAlign_Trace scale / history session (%d calls)" % len(traces))
    rej = sorted((order[i], clause) for i, clause in rej)
    for tr in traces:
        ctx.count(1, ("scale", tr["group"], tr["index"]) if tr["outcome"] == "ok" else None)
    for idx, clause in rej:
        tr = traces[idx]
        ctx.violation({"kind": "scale", "seed": seed, "tier": tier, "index": tr["index"], "clause": clause},
                      "scale:" + SIGS.get(clause, "clause%d" % clause),
                      "%s; call %d of a session of long lines aligned one after another in one process (group %s): T=%d C=%d blank=%d, "
                      "%d labels=%s (immediate repeats after label %s) -> outcome=%s path=%s pos=%s" % (
                          CLAUSES.get(clause, "?"), tr["index"], tr["group"], len(tr["cm"]), len(tr["cm"][0]), tr["blank"],
                          len(tr["labels"]), _short(tr["labels"]), [k + 1 for k in range(len(tr["labels"]) - 1) if tr["labels"][k] == tr["labels"][k + 1]],
                          tr["outcome"], _short(tr["path"]), _short(tr["pos"])))
    return acc, rej


def scale_part(ctx, seed, tier, selftest=True):
    # in this very process: the session starts from whatever module state warm() and the hand-made self-test cases left behind
    traces = run_session(scale_session(seed, tier))
    acc, rej = judge_scale(ctx, seed, tier, traces)
    if selftest and not rej:
        # a recorded alignment that is valid but NOT of minimal cost must be rejected: the last frame of a character that holds several
        # frames is given to the blank instead (still collapses to the labels) and the blank is made to cost one more there
        def movable(tr):
            p, b = tr["path"], tr["blank"]
            return [f for f in range(1, len(p)) if p[f] == p[f - 1] != b and (f == len(p) - 1 or p[f + 1] != p[f])
                    and tr["cm"][f][p[f]] not in (INF - 1, INF)]
        good = next((tr for tr in traces if tr["outcome"] == "ok" and len(tr["cm"]) * len(tr["cm"][0]) < 12000 and movable(tr)), None)
        if good is not None:
            def corrupt(tr):
                f = movable(tr)[0]
                tr["cm"][f][tr["blank"]] = tr["cm"][f][tr["path"][f]] + 1
                tr["path"][f] = tr["blank"]
                return tr
            ctx.selftest_corrupt("ForcedAlign_Trace", good, corrupt, constants=trace_constants(SCALE_CFG))
    ctx.notes["scale_session_calls"] = len(traces)
    return rej


def trace_constants(c, seq_clause=False):
    k = tla_constants(c)
    k["SeqClause"] = bool(seq_clause)
    return k


def judge(ctx, c, traces):
    consts = trace_constants(c)
    acc, rej = ctx.validate("ForcedAlign_Trace", traces, constants=consts, shards=min(8, max(1, len(traces) // 400)),
                            label="ForcedAlign_Trace " + _lab(c))
    # drift level: the return_seq_positions=True variant (plumbing between force_align and align_text, not named by the statement)
    bad = {i for i, _ in rej}
    sub = [tr for i, tr in enumerate(traces) if i not in bad and tr["outcome"] == "ok"]
    if len(sub) > 3000:
        sub = random.Random(len(sub)).sample(sub, 3000)
    if sub:
        before = ctx.traces_validated
        _, rej2 = ctx.validate("ForcedAlign_Trace", sub, constants=trace_constants(c, True), shards=min(4, max(1, len(sub) // 400)),
                               label="ForcedAlign_Trace (return_seq_positions, drift only) " + _lab(c))
        ctx.traces_validated = before
        for i, clause in rej2:
            ctx.model_drift("clause %d: %s" % (clause, CLAUSES.get(clause, "?")), 1, {"cfg": _lab(c), "trace": sub[i]})
    for tr in traces:
        nt = tr["outcome"] == "ok" and c["T"] > len(tr["labels"])
        ctx.count(1, (tuple(map(tuple, tr["cm"])), tuple(tr["labels"]), tr["blank"]) if nt else None)
    oks = [tr for tr in traces if tr["outcome"] == "ok" and len(tr["labels"]) > 1]
    if oks:
        ctx.sample({"config": _lab(c), "trace": oks[len(oks) // 2]}, limit=6)
    for idx, clause in rej:
        tr = traces[idx]
        ctx.violation({"cfg": c, "trace": tr, "clause": clause}, SIGS.get(clause, "clause%d" % clause),
                      "%s; T=%d blank=%d labels=%s costs=%s -> outcome=%s path=%s seq=%s pos=%s" % (
                          CLAUSES.get(clause, "?"), c["T"], tr["blank"], tr["labels"], tr["cm"], tr["outcome"], tr["path"],
                          tr["seq"], tr["pos"]))
    return acc, rej


def selftests(ctx, c, traces):
    """(a) seeded defects inside the model must violate the invariants; (b) corrupted real traces must be rejected"""
    small = cfg(3, 3, 3, {0, 1}, {2})
    for mut, inv in (("skip_equal", "FailsIffNoAlignment"), ("final_last", "FailsIffNoAlignment"),
                     ("init_state0", "FailsIffNoAlignment"), ("argmin_pos", "PositionsOK")):
        ctx.tlc("ForcedAlign", constants=tla_constants(small, mut), invariants=INVS, workers=4, timeout=900, coverage=False,
                expect_violation=inv, label="ForcedAlign selftest Mut=%s" % mut)
    consts = trace_constants(c)
    # (b1) the most-confident-frame clause: a hand-made case with ONE optimal alignment (blank impossible, so every frame carries the
    # label) whose middle frame is the only confident one; moving the position elsewhere cannot be explained by any other alignment
    if c["T"] == 3 and c["C"] == 3:
        good = execute(c, [((1, 1, INF, 1, 0, INF, 1, 1, INF), (0,), 2)])[0]

        def corrupt_pos(tr):
            tr["pos"][0] = 1 if tr["pos"][0] != 1 else 3
            return tr
        ctx.selftest_corrupt("ForcedAlign_Trace", good, corrupt_pos, constants=consts)
    def foreign(tr):
        return [s for s in range(len(tr["cm"][0])) if s != tr["blank"] and s not in tr["labels"]]
    good2 = next((tr for tr in traces if tr["outcome"] == "ok" and tr["blank"] in tr["path"] and foreign(tr)), None)
    if good2 is not None:
        def corrupt_path(tr):
            tr["path"][tr["path"].index(tr["blank"])] = foreign(tr)[0]      # a blank frame replaced by a symbol that is not a label
            return tr
        ctx.selftest_corrupt("ForcedAlign_Trace", good2, corrupt_path, constants=consts)
    good3 = next((tr for tr in traces if tr["outcome"] == "ok"), None)
    if good3 is not None:
        def corrupt_outcome(tr):
            tr["outcome"] = "error"
            tr["path"], tr["seq"], tr["pos"] = [], [], []
            return tr
        ctx.selftest_corrupt("ForcedAlign_Trace", good3, corrupt_outcome, constants=consts)


def run(ctx):
    ctx.rule = ("every (cost matrix over the listed cost values incl. +inf, label string of length 1..MaxL over all symbols incl. the "
                "blank, blank index) of the bounded shapes = the initial states of the TLC run; complete for the small shapes, seeded "
                "sample above the cap; non-trivial = alignment found and more frames than labels (several valid alignments compete); plus "
                "one session of 40-100 calls on long lines in one process (9-260 labels, 4-600 symbols, up to 2100 frames)")
    ctx.assume("cost values are small integers or +inf, so float sums in the real code are exact and cost ties are exact ties",
               "T <= 6 frames, at most 4 symbols, labels up to length 4",
               "when every valid alignment has infinite cost both 'failure' and 'an infinite-cost valid path' are accepted (the code fails)")
    warm()
    ctx.exhaustive = True
    done_self = False
    for c in configs(ctx.tier):
        consts = tla_constants(c)
        invs = INVS + (["ColumnExact"] if c["column"] else [])
        cases, complete = cases_of(c, ctx.rng)
        if not complete:
            ctx.exhaustive = False
        if c["design"] == "none":
            pass        # same design space as an earlier config; only the rendering of the costs differs
        elif c["design"] == "check":
            ctx.tlc("ForcedAlign", constants=consts, invariants=invs, workers=6, timeout=3000, coverage=c["coverage"],
                    label="ForcedAlign " + _lab(c))
        else:
            # the full matrix space of this shape is beyond TLC: the design is checked on the very cases the real code executes
            sub = cases if len(cases) <= 4000 else ctx.rng.sample(cases, 4000)
            js = json.dumps([{"cm": [list(m[i * c["C"]:(i + 1) * c["C"]]) for i in range(c["T"])], "labels": list(ls), "blank": b}
                             for m, ls, b in sub])
            ctx.tlc("MC_ForcedAlignCases", constants=consts, invariants=invs, init="InitCases", workers=6, timeout=3000,
                    files={"MC_ForcedAlignCases.tla": MC_CASES, "cases.json": js},
                    label="ForcedAlign on %d sampled initial states %s" % (len(sub), _lab(c)))
        traces = execute(c, cases)
        acc, rej = judge(ctx, c, traces)
        if not done_self and not rej and c["T"] == 3:
            selftests(ctx, c, traces)
            done_self = True
    # history and scale: one process, many long lines one after another
    ctx.assume("scale / history session: integer costs 0..2499 or +inf; 9-130 labels (thorough: up to 260), up to 300 symbols (600), up to "
               "1107 frames (2100); the minimum is the Viterbi recursion of the design module evaluated by TLC on the recorded matrix")
    scale_part(ctx, ctx.seed, ctx.tier)
    ctx.notes["explanation"] = ("TLC exhaustive on ForcedAlign per config (invariants %s; ColumnExact on the small shapes); every sampled "
                                "initial state executed by pero_ocr.core.force_alignment.force_align (both return modes) and align_text; "
                                "each execution judged by TLC in ForcedAlign_Trace against the brute force over all C^T labellings "
                                "(any optimal alignment / any most-confident frame accepted)" % INVS)


def replay(ctx, case):
    warm()
    if case.get("kind") == "scale":
        # the whole session is executed again in one process (the calls before the rejected one are part of the case) and judged again
        scale_part(ctx, case["seed"], case["tier"], selftest=False)
        return
    c = case["cfg"]
    tr = case["trace"]
    vals = tuple(x for row in tr["cm"] for x in row)
    traces = execute(c, [(vals, tuple(tr["labels"]), tr["blank"])])
    judge(ctx, c, traces)
