------------------------- MODULE PageXml_Trace -------------------------
(* Trace layer for PageXml (C01).  A recorded execution of the real pero_ocr.core.layout.PageLayout
     page0 (projection of the built object);
     events[1..5] = Export v / Load how pm / Export v' / Load how' pm' / Export v'   (pm = order in which the harness
                    hands the TextRegion elements of the written document to the import: identity or "another tool re-ordered them")
   each with the projection of the live object after the call (page) and, for Export, the independent
   projection of the written document (doc) and a digest of its text with the timestamps removed (hash).

   Two acceptance levels (DESIGN.md 3.4):
   * TInit / TNext / TAccept  - detailed: the execution is a behaviour of PageXml (every field of every
     document and live object is the one the implementation-shaped actions produce; guessed heights are
     taken from the record, they are unconstrained).  Progress = number of events matched.
   * PInit / PNext / PAccept  - property level: only the clauses of the statement (WrittenOK, RoundTripOK,
     HeldOK, fixpoint), evaluated with the operators of PageXml on the recorded values.  Progress = number
     of the first violated clause (see Clause below).  Only a rejection at this level is a VIOLATION.
   Every record carries kind = "std" (the behaviour above) or "hist" (a history over long-lived objects, see HClause). *)
EXTENDS PageXml, TraceKit
VARIABLES tid, pclause
Tr == Traces[tid]

\* ---------------------------------------------------------------- detailed level
SafeHts(regs, i, j) == IF i <= Len(regs) THEN (IF j <= Len(regs[i].lines) /\ Len(regs[i].lines[j].hts) = 2
                                                THEN regs[i].lines[j].hts ELSE <<0, 0>>)
                       ELSE <<0, 0>>
\* what the recorded document holds at position (i, j): used only for OffGrid heights
OgOf(D) == [i \in 1..Len(Sorted) |-> [j \in 1..Len(Sorted[i].lines) |-> SafeHts(D.regions, i, j)]]
\* the guess recorded for the line (i, j) of the document being loaded: matched by region id (the constructor re-orders)
RegIdx(regs, id) == IF \E r \in 1..Len(regs) : regs[r].id = id THEN CHOOSE r \in 1..Len(regs) : regs[r].id = id ELSE 0
GOf(Q, src) == [i \in 1..Len(src) |-> [j \in 1..Len(src[i].lines) |->
                  LET r == RegIdx(Q.regions, src[i].id) IN IF r = 0 THEN <<0, 0>> ELSE SafeHts(Q.regions, r, j)]]
GuessValid(Q, src) == \A i \in 1..Len(src) : \A j \in 1..Len(src[i].lines) :
                         src[i].lines[j].hts = <<>> => (ValidHt(GOf(Q, src)[i][j][1]) /\ ValidHt(GOf(Q, src)[i][j][2]))
OgValid(D) == \A i \in 1..Len(Sorted) : \A j \in 1..Len(Sorted[i].lines) :
                 OgOf(D)[i][j][1] >= 0 /\ OgOf(D)[i][j][2] >= 0

TInit == /\ tid \in 1..NTraces
         /\ page = Tr.page0 /\ pre = Tr.page0
         /\ doc = NoDoc /\ prevDoc = NoDoc /\ seen = NoDoc /\ step = 0 /\ how = "none" /\ pclause = 0

TNext == /\ UNCHANGED <<tid, pclause>>
         /\ Tr.kind = "std"                                  \* histories (kind "hist") are judged at the property level only
         /\ Tr.outcome = "ok" /\ step < Len(Tr.events)
         /\ LET ev == Tr.events[step + 1]
            IN \/ /\ ev.a = "Export"
                  /\ OgValid(ev.doc)
                  /\ Export(ev.v, OgOf(ev.doc))
                  /\ doc' = ev.doc /\ page' = ev.page
                  /\ (step = 4) => (ev.hash = Tr.events[3].hash)        \* identical text, timestamps aside
               \/ /\ ev.a = "Load"
                  /\ IsPermIdx(ev.pm, Len(doc.regions))
                  /\ GuessValid(ev.page, Src(ev.pm))
                  /\ Load(ev.how, GOf(ev.page, Src(ev.pm)), ev.pm)
                  /\ page' = ev.page

TAccept == TKMark(tid, step, step = 5)
TPost == TKPost

\* ---------------------------------------------------------------- property level
E(n) == Tr.events[n]
\* the document as the n-th call (a Load) saw it: the one written by call n-1, regions re-ordered by pm
Seen(n) == LET D == E(n - 1).doc
               pm == E(n).pm
           IN IF IsPermIdx(pm, Len(D.regions)) THEN [D EXCEPT !.regions = [i \in 1..Len(D.regions) |-> D.regions[pm[i]]]] ELSE D
Shape == /\ Tr.outcome = "ok" /\ Len(Tr.events) = 5
         /\ E(1).a = "Export" /\ E(2).a = "Load" /\ E(3).a = "Export" /\ E(4).a = "Load" /\ E(5).a = "Export"
         /\ E(5).v = E(3).v
\* number of the first clause of the statement the execution violates, 0 when none
Clause ==
  IF ~Shape THEN 1                                                          \* the real code raised
  ELSE IF ~WrittenOK(Tr.page0, E(1).doc) THEN 2                             \* written in reading order (1st export)
  ELSE IF ~RoundTripOK(Tr.page0, Seen(2), E(2).page, E(2).how) THEN 3       \* load(export(p)) = p up to rounding
  ELSE IF E(2).how = "ctor" /\ ~HeldOK(Seen(2), E(2).page) THEN 4           \* held in reading order
  ELSE IF ~WrittenOK(E(2).page, E(3).doc) THEN 5
  ELSE IF ~RoundTripOK(E(2).page, Seen(4), E(4).page, E(4).how) THEN 6
  ELSE IF E(4).how = "ctor" /\ ~HeldOK(Seen(4), E(4).page) THEN 7
  ELSE IF ~WrittenOK(E(4).page, E(5).doc) THEN 8
  ELSE IF ~(E(5).doc = E(3).doc /\ E(5).hash = E(3).hash) THEN 9            \* fixpoint
  ELSE 0

\* ---------------------------------------------------------------- history (kind = "hist")
(* The statement speaks about ANY page and ANY document, whatever the process loaded, edited or failed to load before.
   A recorded history over long-lived objects of one process (driver: pagexml_common.run_hist):
     events[1..8] = Export v P -> X1 / Load X1 -> L1 / Export v' L1 -> X2 /
                    Edit (the caller moves its own page L1 IN PLACE: numpy +=, list item assignment; page = L1 afterwards) /
                    Export v' L1 -> X3 / Load X3 -> L2 / Load X1 AGAIN -> L3 (for some histories right after a load that
                    fails half way) / Export v' L3 -> X4
   Clauses 1-5 are the ones of the plain behaviour; 10-14 are the same operators of PageXml applied across the history:
   the edited page is what is written and read back (not a stale copy of L1), and the first document still loads to the
   page it was written from (not to whatever L1 was turned into).  Nothing is asserted about the edit itself: the page
   recorded after it is taken as the caller's page, whatever aliasing the library's objects may have. *)
SeenOf(D, pm) == IF IsPermIdx(pm, Len(D.regions)) THEN [D EXCEPT !.regions = [i \in 1..Len(D.regions) |-> D.regions[pm[i]]]] ELSE D
HShape == /\ Tr.outcome = "ok" /\ Len(Tr.events) = 8
          /\ E(1).a = "Export" /\ E(2).a = "Load" /\ E(3).a = "Export" /\ E(4).a = "Edit"
          /\ E(5).a = "Export" /\ E(6).a = "Load" /\ E(7).a = "Load" /\ E(8).a = "Export"
HClause ==
  IF ~HShape THEN 1
  ELSE IF ~WrittenOK(Tr.page0, E(1).doc) THEN 2
  ELSE IF ~RoundTripOK(Tr.page0, SeenOf(E(1).doc, E(2).pm), E(2).page, E(2).how) THEN 3
  ELSE IF E(2).how = "ctor" /\ ~HeldOK(SeenOf(E(1).doc, E(2).pm), E(2).page) THEN 4
  ELSE IF ~WrittenOK(E(2).page, E(3).doc) THEN 5
  ELSE IF ~WrittenOK(E(4).page, E(5).doc) THEN 10                             \* the edited page is written in reading order
  ELSE IF ~RoundTripOK(E(4).page, SeenOf(E(5).doc, E(6).pm), E(6).page, E(6).how) THEN 11   \* load(export(edited L1)) = edited L1
  ELSE IF E(6).how = "ctor" /\ ~HeldOK(SeenOf(E(5).doc, E(6).pm), E(6).page) THEN 12
  ELSE IF ~RoundTripOK(Tr.page0, SeenOf(E(1).doc, E(7).pm), E(7).page, E(7).how) THEN 13    \* X1 loaded again = P, as the first time
  ELSE IF E(7).how = "ctor" /\ ~HeldOK(SeenOf(E(1).doc, E(7).pm), E(7).page) THEN 14
  ELSE IF ~WrittenOK(E(7).page, E(8).doc) THEN 15
  ELSE 0

(* Scale and precision.  The pages of the driver's "scale" space (coordinates beyond 2^15 / 2^16 / 2^24 / 2^27, sizes, indices
   and heights beyond 2^16 and 2^24, 300 lines / regions, 1100-point outlines, 70 000-character transcriptions) are ordinary
   traces: every recorded integer is below 2^31 and TLC evaluates RHE / RoundTripOK on them exactly as on the small pages.
   The "fine" executions hand the real code coordinates q/4 +- 2^-30: finer than the quarter grid of this model (and than
   float32), so TLC cannot hold the input itself.  For those the record's page0 is not the projection of the built object but
   the page computed from the exact rational coordinates by an independent routine of the driver (pagexml_common.oracle_page:
   fractions.Fraction, nearest integer; no tie can occur); they are validated at the property level only, where RoundTripOK
   compares what the real code wrote and loaded with that oracle page. *)

PInit == /\ tid \in 1..NTraces
         /\ pclause = (IF Tr.kind = "hist" THEN HClause ELSE Clause)
         /\ page = Tr.page0 /\ pre = Tr.page0
         /\ doc = NoDoc /\ prevDoc = NoDoc /\ seen = NoDoc /\ step = 0 /\ how = "none"
PNext == UNCHANGED <<vars, tid, pclause>>
PAccept == TKMark(tid, pclause, pclause = 0)

ASSUME TKReset
=============================================================================
