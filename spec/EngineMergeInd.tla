--------------------------- MODULE EngineMergeInd ---------------------------
(* Unbounded counterpart of EngineMerge.tla for C19, written for Apalache: the inner loop of merge_layouts
   (user_scripts/merge_ocr_results.py) for ONE line and a tuple of ANY number N of engines with ARBITRARY confidences, seen
   through ONE arbitrary engine J whose confidence for the line is cj (universal generalisation: what is proved for an arbitrary
   J holds for every engine).

   Confidences live on the ordered scale of EngineMerge.tla (0 = none, 2 = exactly 0.0 = the initial threshold, > 2 positive).
       i    = engines scanned so far                    (e in EngineMerge.tla)
       best = running threshold                         (best_confidence)
       w    = engine whose fields the merged line holds (0 = nothing copied yet)
       cj   = confidence of engine J (an input, never changed)
   One Scan action per iteration of `for line in lines`: the confidence c of engine i + 1 is arbitrary - except that engine J has
   confidence cj - and wins iff c > best (Variant "ge": c >= best, the seeded defect of EngineMerge.tla).

   IndInv is inductive (apalache-mc: Init => IndInv, IndInv /\ Next => IndInv' from an arbitrary IndInv state), hence for ANY
   number of engines and ANY confidences: when the scan ends, no engine beats the recorded confidence (NoneBetter), the kept engine
   is one that realises it (WinnerRealises), among equals the FIRST one is kept (FirstOnTies), and something is kept iff some
   engine is positive (KeptIffPositive follows from NoneBetter and the shape clauses).  EngineMergeRef.tla carries the refinement
   mapping from EngineMerge.tla, checked by TLC for every line and every engine of its bounded configurations.

     apalache-mc check --cinit=CInitOk --init=IndInit --inv=IndInv --length=1 EngineMergeInd.tla
     apalache-mc check --cinit=CInitOk --init=Init    --inv=IndInv --length=0 EngineMergeInd.tla
     apalache-mc check --cinit=CInitGe --init=IndInit --inv=IndInv --length=1 EngineMergeInd.tla          (must fail)       *)
EXTENDS Integers

CONSTANTS
    \* @type: Int;
    N,
    \* @type: Int;
    J,
    \* @type: Str;
    Variant

VARIABLES
    \* @type: Int;
    i,
    \* @type: Int;
    best,
    \* @type: Int;
    w,
    \* @type: Int;
    cj

\* @type: <<Int, Int, Int, Int>>;
vars == <<i, best, w, cj>>

CInitOk == N \in Int /\ J \in Int /\ 1 <= J /\ J <= N /\ Variant = "ok"
CInitGe == N \in Int /\ J \in Int /\ 1 <= J /\ J <= N /\ Variant = "ge"

Thr0 == 2

Init == /\ i = 0 /\ best = Thr0 /\ w = 0
        /\ cj \in Int /\ cj >= 0

\* the confidence c of engine i + 1 is arbitrary (c >= 0) except that engine J has confidence cj; it wins iff c > best.
\* Written as a relation between the two states (no quantifier over Int) so that TLC can evaluate the step for the refinement
\* check of EngineMergeRef.tla: either the engine loses and nothing changes, or it wins and best' is its confidence.
Loses(c) == IF Variant = "ge" THEN c < best ELSE c <= best
Scan == /\ i < N /\ i' = i + 1 /\ UNCHANGED cj
        /\ \/ /\ best' = best /\ w' = w
              /\ IF i + 1 = J THEN Loses(cj) ELSE Loses(0)
           \/ /\ w' = i + 1
              /\ best' \in Int /\ best' >= 0 /\ ~Loses(best')
              /\ (i + 1 = J => best' = cj)

Next == Scan
Spec == Init /\ [][Next]_vars

Seen == J <= i
\* C19: no engine scanned so far has a higher mean confidence than the recorded one ...
NoneBetter == Seen => cj <= best
\* ... the engine whose transcription / logits / character table are kept realises it ...
WinnerRealises == (w = J) => best = cj
\* ... and it is the first of those that do ("the first on ties")
FirstOnTies == (Seen /\ w > 0 /\ cj = best) => w <= J

IndInv == /\ i >= 0 /\ i <= N /\ cj >= 0
          /\ best >= Thr0
          /\ (w = 0) => best = Thr0
          /\ (w # 0) => (best > Thr0 /\ 1 <= w /\ w <= i)
          /\ NoneBetter /\ WinnerRealises /\ FirstOnTies

IndInit == /\ i \in Int /\ best \in Int /\ w \in Int /\ cj \in Int
           /\ IndInv
=============================================================================
