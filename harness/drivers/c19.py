"""C19 - engine merging keeps, per line, the most confident engine's result (DESIGN.md section 4 C19, Appendix A.16, Appendix D).

1. Design: TLC checks spec/EngineMerge.tla (one Scan per engine and line with the running threshold and strict '>', NextLine,
   Remerge for idempotence) for every assignment of confidence levels (none / exactly 0 / positive levels with ties) to
   NEngines x NLines: winner = first arg-max when the maximum is positive (three fields + recorded confidence from that engine),
   nothing copied otherwise, the three fields always from one engine, second merge changes nothing.  Seeded in-model defects
   (>=, logits without characters, compare sums) must violate; 'initial threshold -1' violates only the strict invariant and is
   accepted by the permissive one (reading decision of Appendix D).
2. Cases: every level assignment of the TLC run is realised as real PageLayouts whose logits realise the mean confidences exactly
   (transformer-style one-row-per-character matrices, CTC-style matrices going through align_text incl. a clipped 0.0, and an
   unalignable line that takes the 0.5 fallback of get_confidences), engines with different character tables; the real
   merge_ocr_results.merge_layouts is called (twice), also on [p, p] and [p, deepcopy(p)].
3. Conformance: TLC judges every execution in EngineMerge_Trace with the operator Accepts of the design module.
"""
import contextlib
import copy
import importlib.util
import io
import itertools
import os

import numpy as np
import scipy.sparse as sp

from ..core import pmap, REPO

LEVEL = "model_checking"
INVS = ["Correct", "CorrectPermissive", "SameEngine", "Idempotent"]
D = 8
# character tables: engines 1, 3, 4 share the column structure (bitwise equal confidences for equal realisations = exact ties with
# different content), engine 2 has a permuted table with an extra character (round-off may differ in the last bit)
TABLES = {1: ["a", "b", "z", "~"], 2: ["z", "d", "c", "x", "~"], 3: ["e", "f", "z", "~"], 4: ["g", "h", "z", "~"]}
LETTERS = {1: "ab", 2: "cd", 3: "ef", 4: "gh"}
# "agreeing engines": every engine transcribes the same text (the common case in practice) over its own, differently ordered table
TABLES_AGREE = {1: ["a", "b", "z", "~"], 2: ["z", "b", "a", "x", "~"], 3: ["b", "a", "z", "~"], 4: ["a", "z", "b", "~"]}
LETTERS_AGREE = {1: "ab", 2: "ab", 3: "ab", 4: "ab"}
_AGREE = {"on": False}
# realisations of a level (mean confidence in 16ths): (style, per-character (label weight, distractor weight) over D)
PALETTE = {
    0: [("ctc", [(2, 5)]), ("ctc", [(1, 4), (3, 3)])],
    4: [("tr", [(2, 0)]), ("tr", [(3, 0), (1, 0)]), ("ctc", [(4, 2)]), ("ctc", [(5, 1), (1, 5)])],
    8: [("tr", [(4, 0)]), ("tr", [(6, 0), (2, 0)]), ("fallback", []), ("ctc", [(5, 1)])],
    12: [("tr", [(6, 0)]), ("tr", [(7, 0), (5, 0)]), ("ctc", [(7, 1)])],
}
NONE = -1
CLAUSES = {1: "merge_layouts raised", 2: "ids / geometry / line order of a layout changed",
           3: "the confidence the script computes for an engine's line is not the mean of the library's character confidences of its transcription",
           4: "merging the merged result again changed it",
           5: "the mean character confidence differs from the exact value the logits were built to realise"}


def load_merge():
    path = os.path.join(REPO, "user_scripts", "merge_ocr_results.py")
    spec = importlib.util.spec_from_file_location("verif_merge_ocr_results", path)
    mod = importlib.util.module_from_spec(spec)
    spec.loader.exec_module(mod)
    return mod


_MG = None
_GLC = None
_CFG = {}


def configs(tier):
    q = [{"NEngines": 3, "NLines": 1, "levels": [NONE, 0, 4, 8, 12], "cap": None},
         {"NEngines": 2, "NLines": 2, "levels": [NONE, 0, 4, 8], "cap": None},
         {"NEngines": 4, "NLines": 1, "levels": [NONE, 0, 4, 8], "cap": None},
         # a single engine's result "merged": the tuple of 1 layout of the scope sentence
         {"NEngines": 1, "NLines": 2, "levels": [NONE, 0, 4, 8, 12], "cap": None}]
    if tier == "quick":
        return q
    return q + [{"NEngines": 3, "NLines": 2, "levels": [NONE, 0, 4, 8], "cap": None},
                {"NEngines": 4, "NLines": 1, "levels": [NONE, 0, 4, 8, 12], "cap": None},
                {"NEngines": 4, "NLines": 2, "levels": [NONE, 0, 4, 8], "cap": 8000},
                {"NEngines": 1, "NLines": 3, "levels": [NONE, 0, 4, 8, 12], "cap": None}]


def consts_of(c, mut="none", lens=(1,)):
    # scale of the design module: 0 none, 2 zero, 4.. positive levels
    confs = {0 if v == NONE else 2 + v // 2 for v in c["levels"]}
    return {"NEngines": c["NEngines"], "NLines": c["NLines"], "Confs": confs, "Lens": set(lens), "Mut": mut}


def _lab(c):
    return "NEngines=%d NLines=%d levels=%s" % (c["NEngines"], c["NLines"], c["levels"])


def build_line(lid, engine, level, variant, empty_none):
    from pero_ocr.core.layout import TextLine
    TABLES, LETTERS = (TABLES_AGREE, LETTERS_AGREE) if _AGREE["on"] else (globals()["TABLES"], globals()["LETTERS"])
    chars = TABLES[engine]
    nc = len(chars)
    blank = nc - 1
    zcol = chars.index("z")
    y = 10 * int(lid[1:])
    # same ids, but every engine saw the line slightly differently (its own baseline, outline, heights): "geometry is never altered"
    # is only observable when the engines' geometries differ
    g = engine - 1
    line = TextLine(id=lid, baseline=np.array([[0, y + g], [50 + g, y]]),
                    polygon=np.array([[0, y - 5 - g], [50 + g, y - 5], [50 + g, y + 2], [0, y + 2 + g]]),
                    heights=[5 + g, 2 + 0.5 * g], characters=list(chars))
    line.index = 10 * engine + int(lid[1:])
    # the value the line carried before the merge (e.g. the conf attribute of an imported PAGE XML): a sentinel, low on even lines
    # and HIGHER than any engine's mean confidence on odd lines - it must never act as a threshold nor survive a positive maximum
    line.transcription_confidence = (0.111 if int(lid[1:]) % 2 == 0 else 0.961) + 0.001 * engine
    if level == NONE:
        line.transcription = None if empty_none else ""
        line.logits = sp.csc_matrix(np.log(np.full((2, nc), 1.0 / nc)) + 1.0)
        return line, 0, 1
    style, spec = PALETTE[level][variant % len(PALETTE[level])]
    if style == "fallback":
        # two equal labels on one frame: not alignable -> get_confidences falls back to 0.5 per character
        line.transcription = LETTERS[engine][0] * 2
        w = np.zeros((1, nc))
        w[0, chars.index(LETTERS[engine][0])] = 5
        w[0, blank] = 3
        rows = w
        num, den = 0, 0          # the value of the fallback is not part of the statement: no exact expectation (den = 0)
    elif style == "tr":
        text = LETTERS[engine][:len(spec)]
        line.transcription = text
        rows = np.zeros((len(spec), nc))
        for i, (a, _) in enumerate(spec):
            rows[i, chars.index(text[i])] = a
            rows[i, blank] = D - a
        num, den = sum(a for a, _ in spec), D * len(spec)
    else:
        text = LETTERS[engine][:len(spec)]
        line.transcription = text
        rows = np.zeros((2 * len(spec) + 1, nc))
        rows[:, blank] = D
        for i, (a, b) in enumerate(spec):
            f = 2 * i + 1
            rows[f, :] = 0
            rows[f, chars.index(text[i])] = a
            rows[f, zcol] = b
            rows[f, blank] = D - a - b
        num, den = sum(max(0, a - b) for a, b in spec), D * len(spec)
    with np.errstate(divide="ignore"):
        lg = np.log(rows / D) + 1.5          # unnormalised logits; zero weight = absent entry of the sparse matrix (floor -80)
    lg[rows == 0] = 0.0
    line.logits = sp.csc_matrix(lg)
    return line, num, den


def build_layout(engine, levels, variants, empty_none):
    from pero_ocr.core.layout import PageLayout, RegionLayout
    p = PageLayout(id="page", page_size=(100, 100))
    r = RegionLayout("r1", np.array([[0, 0], [60, 0], [60, 90], [0, 90]]))
    p.regions.append(r)
    meta = []
    for k, lv in enumerate(levels):
        line, num, den = build_line("l%d" % (k + 1), engine, lv, variants[k], empty_none)
        if k >= 1 and len(p.regions) == 1:          # the second and later lines live in a second region
            r = RegionLayout("r2", np.array([[0, 10 * k + 12], [60, 10 * k + 12], [60, 99], [0, 99]]))
            p.regions.append(r)
        r.lines.append(line)
        meta.append((num, den))
    return p, meta


def snapshot_frame(p):
    return [p.id, tuple(p.page_size)] + [[r.id, r.polygon.tolist(), [(l.id, l.baseline.tolist(), l.polygon.tolist(), list(l.heights), l.index)
                                                                       for l in r.lines]] for r in p.regions]


def same_logits(a, b):
    return a.shape == b.shape and (a != b).nnz == 0


def _scale(means):
    """ordered scale of the design module for one line: None -> 0, 0.0 -> 2, positive floats -> 4 + 2 * dense rank"""
    pos = sorted({m for m in means if m is not None and m > 0})
    return [0 if m is None else (2 if not m > 0 else 4 + 2 * pos.index(m)) for m in means]


def _merge_case(case):
    kind, assign, vseed = case["kind"], case["assign"], case["vseed"]
    ne, nl = _CFG["NEngines"], _CFG["NLines"]
    rec = {"outcome": "ok", "kind": kind, "assign": [list(a) for a in assign], "vseed": vseed, "frame_ok": True, "idem": True, "lines": []}
    try:
        variants = [(vseed // (3 ** k)) % 12 for k in range(nl)]
        empty_none = bool(vseed % 2)
        _AGREE["on"] = (kind == "engines" and vseed % 3 == 0)
        if kind == "engines":
            built = [build_layout(e + 1, assign[e], variants, empty_none) for e in range(ne)]
            layouts = [b[0] for b in built]
            metas = [b[1] for b in built]
        else:                       # self-merge: the same result twice (same object / an equal copy); ne == 2
            p, meta = build_layout(1, assign[0], variants, empty_none)
            layouts = [p, p] if kind == "self-same" else [p, copy.deepcopy(p)]
            metas = [meta, meta]
        sink = io.StringIO()
        # observations before merging, with the script's own get_confidences
        orig = []
        for e, p in enumerate(layouts):
            per = []
            for k, line in enumerate(p.lines_iterator()):
                with contextlib.redirect_stdout(sink):
                    cf = _MG.get_confidences(line)
                mean = float(cf.mean()) if cf.size > 0 else None
                refdev = 0
                if mean is not None:
                    try:        # the library's own per-character confidences for the same transcription (C16's subject)
                        idx = np.asarray([list(line.characters).index(ch) for ch in line.transcription])
                        refdev = int(min(2e9, abs(float(np.mean(_GLC(line, idx))) - mean) * 1e12))
                    except ValueError:
                        refdev = 0          # not alignable: the script's fallback constant is not part of the statement
                per.append({"mean": mean, "refdev": refdev, "text": line.transcription, "logits": line.logits.copy(), "chars": list(line.characters),
                            "own_conf": line.transcription_confidence})
            orig.append(per)
        frames = [snapshot_frame(copy.deepcopy(p)) for p in layouts]
        with contextlib.redirect_stdout(sink):
            _MG.merge_layouts(layouts)
        rec["frame_ok"] = all(snapshot_frame(p) == f for p, f in zip(layouts, frames))
        merged = list(layouts[0].lines_iterator())
        after1 = [(m.transcription, m.logits.copy(), list(m.characters), m.transcription_confidence) for m in merged]
        for k, m in enumerate(merged):
            means = [orig[e][k]["mean"] for e in range(ne)]
            tc = m.transcription_confidence
            if tc == orig[0][k]["own_conf"]:
                r = 1
            else:
                r = 3
                sc = _scale(means)
                for e in range(ne):
                    if means[e] is not None and tc == means[e]:
                        r = sc[e]
                        break
            rec["lines"].append({
                "conf": _scale(means),
                "obs": [0 if v is None else int(round(v * 1e6)) for v in means],
                "num": [metas[e][k][0] for e in range(ne)], "den": [metas[e][k][1] for e in range(ne)],
                "refdev": [orig[e][k]["refdev"] for e in range(ne)],
                "tx": [e + 1 for e in range(ne) if orig[e][k]["text"] == m.transcription],
                "lg": [e + 1 for e in range(ne) if same_logits(orig[e][k]["logits"], m.logits)],
                "ch": [e + 1 for e in range(ne) if orig[e][k]["chars"] == list(m.characters)],
                "rec": r})
        with contextlib.redirect_stdout(sink):
            _MG.merge_layouts(layouts)
        merged2 = list(layouts[0].lines_iterator())
        rec["idem"] = all(m.transcription == a[0] and same_logits(m.logits, a[1]) and list(m.characters) == a[2]
                          and m.transcription_confidence == a[3] for m, a in zip(merged2, after1)) \
            and all(snapshot_frame(p) == f for p, f in zip(layouts, frames))
    except BaseException as ex:     # exit(-1) of the script included: part of the observation
        if isinstance(ex, KeyboardInterrupt):
            raise
        rec["outcome"] = "exception:" + type(ex).__name__
        rec["lines"] = [{"conf": [0] * ne, "obs": [0] * ne, "num": [0] * ne, "den": [1] * ne, "refdev": [0] * ne, "tx": [], "lg": [], "ch": [],
                         "rec": 3}
                        for _ in range(nl)]
    return rec


def cases_of(c, rng):
    ne, nl = c["NEngines"], c["NLines"]
    per_engine = list(itertools.product(c["levels"], repeat=nl))
    allc = list(itertools.product(per_engine, repeat=ne))
    complete = True
    if c["cap"] and len(allc) > c["cap"]:
        allc = rng.sample(allc, c["cap"])
        complete = False
    cases = [{"kind": "engines", "assign": a, "vseed": rng.randrange(10 ** 6)} for a in allc]
    return cases, complete


def execute(c, cases):
    global _MG, _CFG, _GLC
    if _MG is None:
        _MG = load_merge()
        from pero_ocr.core.confidence_estimation import get_line_confidence
        _GLC = get_line_confidence
    _CFG = dict(c)
    from pero_ocr.core.force_alignment import force_align
    try:        # warm the numba kernel before forking (only the compilation matters)
        force_align(np.array([[0.0, 1.0], [1.0, 0.0], [0.0, 1.0]]), [0], 1)
    except Exception:
        pass
    return pmap(_merge_case, cases, procs=6)


def tconsts(c, strict):
    k = consts_of(c)
    k["ExactMeans"] = bool(strict)
    return k


def judge(ctx, c, traces):
    acc, rej = ctx.validate("EngineMerge_Trace", traces, constants=tconsts(c, False), shards=min(6, max(1, len(traces) // 300)),
                            label="EngineMerge_Trace " + _lab(c))
    # drift level: the same executions with the exact-rational expectation of the realised confidences
    bad = {i for i, _ in rej}
    good = [tr for i, tr in enumerate(traces) if i not in bad]
    before = ctx.traces_validated
    _, rej2 = ctx.validate("EngineMerge_Trace", good, constants=tconsts(c, True), shards=min(6, max(1, len(good) // 300)),
                           label="EngineMerge_Trace (exact means, drift only) " + _lab(c))
    ctx.traces_validated = before
    for i, clause in rej2:
        ctx.model_drift("clause %d: %s" % (clause, CLAUSES.get(clause, "?")), 1, {"cfg": _lab(c), "trace": good[i]})
    for tr in traces:
        nt = any(len([v for v in ln["conf"] if v >= 4]) >= 2 for ln in tr["lines"])       # at least two positive engines compete
        ctx.count(1, (_lab(c), tr["kind"], repr(tr["assign"]), tr["vseed"]) if nt else None)
    ctx.sample({"config": _lab(c), "trace": traces[len(traces) // 2]}, limit=5)
    for idx, clause in rej:
        tr = traces[idx]
        if clause >= 10:
            k = clause - 10
            ln = tr["lines"][k - 1] if 0 < k <= len(tr["lines"]) else {}
            what = ("line %d: merged line does not hold the transcription + logits + character table of the first most confident engine, "
                    "or the recorded confidence is not that maximum (scale per engine %s; text from %s, logits from %s, table from %s, "
                    "recorded %s)" % (k, ln.get("conf"), ln.get("tx"), ln.get("lg"), ln.get("ch"), ln.get("rec")))
            sig = "selection"
        else:
            what = CLAUSES.get(clause, "?")
            sig = {1: "exception", 2: "ids-geometry", 3: "script-confidence", 4: "idempotence"}.get(clause, "clause%d" % clause)
        ctx.violation({"cfg": c, "case": {"kind": tr["kind"], "assign": tr["assign"], "vseed": tr["vseed"]}, "clause": clause}, sig,
                      "%s; %s kind=%s levels(16ths, -1 = empty) per engine=%s outcome=%s" % (what, _lab(c), tr["kind"], tr["assign"], tr["outcome"]))
    return acc, rej


def run(ctx):
    ctx.rule = ("every assignment of a confidence level {none, 0, 4/16, 8/16, 12/16} to each (engine, line) = the initial states of the TLC "
                "run, realised as PageLayouts with exact-weight logits (seeded choice among transformer-style, CTC-style and fallback "
                "realisations; engines with different character tables), merged by the real merge_layouts; plus self-merges; "
                "non-trivial = a line on which at least two engines have positive confidence")
    ctx.assume("levels differ by >= 1/16, far above round-off; exact ties are decided on the floats the script itself computes "
               "(equal floats = tie, first engine must win); mathematically equal levels whose floats differ in the last bit may go either way",
               "when no engine has positive confidence both 'nothing copied' and 'first arg-max copied' are accepted (Appendix D)",
               "copied logits / character table are compared by content")
    ctx.exhaustive = True
    first = True
    for c in configs(ctx.tier):
        ctx.tlc("EngineMerge", constants=consts_of(c), invariants=INVS, workers=4, timeout=1800, label="EngineMerge " + _lab(c))
        if first:
            small = {"NEngines": 3, "NLines": 1, "levels": [NONE, 0, 4, 8]}
            for mut, inv, lens in (("ge", "Correct", (1,)), ("no_chars", "SameEngine", (1,)), ("sums", "Correct", (1, 2)),
                                   ("init_minus1", "Correct", (1,))):
                ctx.tlc("EngineMerge", constants=consts_of(small, mut, lens), invariants=INVS, workers=2, timeout=600, coverage=False,
                        expect_violation=inv, label="EngineMerge selftest Mut=%s" % mut)
            # negative control: threshold -1 is admissible under the reading decision (only the strict invariant objects)
            ctx.tlc("EngineMerge", constants=consts_of(small, "init_minus1"), invariants=["CorrectPermissive", "SameEngine", "Idempotent"],
                    workers=2, timeout=600, coverage=False, count=False, label="EngineMerge Mut=init_minus1 accepted by the permissive reading")
        cases, complete = cases_of(c, ctx.rng)
        if not complete:
            ctx.exhaustive = False
        traces = execute(c, cases)
        acc, rej = judge(ctx, c, traces)
        if first and not rej:
            good = next(tr for tr in traces if any(max(ln["conf"]) >= 4 and ln["conf"].index(max(ln["conf"])) > 0 for ln in tr["lines"]))

            def corrupt(tr):
                for ln in tr["lines"]:
                    if max(ln["conf"]) >= 4 and ln["conf"].index(max(ln["conf"])) > 0:
                        ln["lg"] = [1]          # the logits stayed those of the first engine although another engine won
                        break
                return tr
            ctx.selftest_corrupt("EngineMerge_Trace", good, corrupt, constants=tconsts(c, False))
        first = False
    # self-merge: a result merged with itself (same object and an equal copy)
    c2 = {"NEngines": 2, "NLines": 2, "levels": [NONE, 0, 4, 8, 12], "cap": None}
    per_engine = list(itertools.product(c2["levels"], repeat=2))
    cases = [{"kind": kind, "assign": (a, a), "vseed": ctx.rng.randrange(10 ** 6)} for a in per_engine for kind in ("self-same", "self-copy")]
    traces = execute(c2, cases)
    judge(ctx, c2, traces)
    ctx.notes["explanation"] = ("TLC exhaustive on EngineMerge per (NEngines, NLines, levels) with invariants %s; every level assignment realised "
                                "as real layouts and merged by user_scripts/merge_ocr_results.merge_layouts (twice); judged by TLC in "
                                "EngineMerge_Trace with the design operator Accepts" % INVS)


def replay(ctx, case):
    c = case["cfg"]
    cs = dict(case["case"])
    cs["assign"] = tuple(tuple(a) for a in cs["assign"])
    traces = execute(c, [cs])
    judge(ctx, c, traces)
