"""C15 - stitching the parts of an over-long line never loses text (DESIGN.md section 4, C15; Appendix A.10).

1. Design: TLC folds Merge (find_best_overlap + the slice arithmetic, repaired: explicit end index) over every list of parts of
   the bounded shape on spec/Stitch.tla and proves LengthOK / StartsOK / EndsOK / RowsOK / RowOfChar / NoOverlapConcat and the action
   property MergeOK (every merge satisfies the statement's StepOK).  Self-test: Legacy=TRUE (txt[:-o // 2], empty for o = 0)
   must violate.
2. Cases: the same part lists (+ seeded windows of one text with and without noise in the overlap) go through the real
   merge_transcriptions_and_logits (every prefix of the list = the state of the loop) with logits whose rows are tagged
   <<part, index>>, and find_best_overlap.
3. Conformance: Stitch_Trace accepts a step iff StepOK holds for the recorded (text so far, part, detected overlap, new text,
   row count) -> rejection = VIOLATION; equality with the modelled slices / overlap detection is tracked as drift only.
"""
import itertools
import random

from .. import st_common as S

LEVEL = "model_checking"
INVS = ["LengthOK", "StartsOK", "EndsOK", "RowsOK", "RowOfChar", "NoOverlapConcat"]
PROPS = ["MergeOK"]
DRIFT = 1000


def constants(b, legacy=False):
    return {"Alphabet": set(range(1, b["alphabet"] + 1)), "MaxLen": b["maxlen"], "MaxParts": b["parts"],
            "Extras": set(b["extras"]), "Legacy": legacy}


def bounds(ctx):
    q = [{"name": "2 parts len<=3", "alphabet": 2, "maxlen": 3, "parts": 2, "extras": [0, 2], "frac": 1.0},
         {"name": "3 parts len<=2", "alphabet": 2, "maxlen": 2, "parts": 3, "extras": [0, 1], "frac": 1.0}]
    if ctx.tier == "quick":
        return q
    return q + [{"name": "2 parts len<=4", "alphabet": 2, "maxlen": 4, "parts": 2, "extras": [0, 3], "frac": 1.0},
                {"name": "3 parts len<=3", "alphabet": 2, "maxlen": 3, "parts": 3, "extras": [0], "frac": 1.0},
                {"name": "2 parts len<=3 abc", "alphabet": 3, "maxlen": 3, "parts": 2, "extras": [0, 1], "frac": 1.0},
                {"name": "4 parts len<=2", "alphabet": 2, "maxlen": 2, "parts": 4, "extras": [0], "frac": 1.0}]


def part_lists(b):
    strs = S.strings(b["alphabet"], b["maxlen"])
    for n in range(1, b["parts"] + 1):
        for combo in itertools.product(strs, repeat=n):
            for ex in itertools.product(b["extras"], repeat=n):
                yield {"parts": [list(p) for p in combo], "extra": list(ex)}


def window_cases(ctx, n):
    """true overlapping windows of one text; with probability 1/2 one character inside an overlap is misrecognised"""
    out = []
    for _ in range(n):
        alpha = ctx.rng.choice([2, 3, 4])
        ln = ctx.rng.randint(5, 9)
        text = [ctx.rng.randint(1, alpha) for _ in range(ln)]
        w = ctx.rng.randint(3, 5)
        ov = ctx.rng.randint(1, w - 1)
        parts, start = [], 0
        while True:
            parts.append(text[start:start + w])
            if start + w >= ln:
                break
            start += w - ov
        if ctx.rng.random() < 0.5 and len(parts) > 1:
            p = ctx.rng.randrange(1, len(parts))
            if parts[p]:
                j = ctx.rng.randrange(0, min(ov, len(parts[p])))
                parts[p] = list(parts[p])
                parts[p][j] = 1 + (parts[p][j] % alpha)
        if ctx.rng.random() < 0.2:
            parts.insert(ctx.rng.randrange(0, len(parts) + 1), [])       # an empty part anywhere
        out.append({"parts": parts, "extra": [ctx.rng.choice([0, 1, 3]) for _ in parts]})
    return out


def disjoint_cases(ctx):
    """long neighbouring parts over disjoint alphabets (nothing to stitch): lengths around the values where n * (1.0 / n) is not
    exactly 1.0 in floating point (49, 98, 103, 107, 161 ...), plus ordinary lengths"""
    rng = random.Random(ctx.seed * 7919 + 15)
    out = []
    for la, lb in [(49, 49), (50, 49), (98, 60), (103, 103), (30, 107), (12, 20)] + ([(161, 161), (196, 110)] if ctx.tier == "thorough" else []):
        a = [rng.choice([1, 2]) for _ in range(la)]
        b = [rng.choice([3, 4]) for _ in range(lb)]
        out.append({"parts": [a, b], "extra": [0, 1]})
        out.append({"parts": [b, a, [5] * 7], "extra": [1, 0, 0]})
    return out


# alphabets of the scale cases: code points beyond 127 / 255, just below 65 536 and beyond 65 535 (one character of the
# transcription = one symbol = one logits row, whatever its code point; no surrogates, no combining marks)
ALPHABETS = [("ascii", "abcdefgh"),
             ("latin-1", "\u00e0\u00e9\u00ee\u00f5\u00fc\u00f1\u00e7\u00df"),
             ("czech", "\u0159\u0161\u010d\u017e\u011b\u016f\u0165\u0148"),
             ("cyrillic", "\u0430\u0431\u0432\u0433\u0434\u0435\u0436\u0437"),
             ("cjk", "".join(chr(0x4e00 + 37 * i) for i in range(8))),
             ("top of the BMP", "\uff21\uff22\uff23\uffe5\ufffd\uffee\uffdc\uff9f"),
             ("gothic", "".join(chr(0x10330 + i) for i in range(8))),
             ("first astral", "".join(chr(0x10000 + i) for i in range(8))),
             ("mathematical", "".join(chr(0x1d538 + i) for i in (0, 1, 3, 4, 5, 6, 8, 9))),
             ("emoji", "".join(chr(0x1f600 + i) for i in range(8))),
             ("plane 16", "".join(chr(0x10fff0 + i) for i in range(8))),
             ("ascii + gothic", "abcd" + "".join(chr(0x10330 + i) for i in range(4))),
             ("czech + emoji", "\u0159\u0161\u010d\u017e" + "".join(chr(0x1f600 + i) for i in range(4)))]


def _windows(line, w, ov):
    parts, starts, start = [], [], 0
    while True:
        parts.append(line[start:start + w])
        starts.append(start + 1)
        if start + w >= len(line):
            break
        start += w - ov
    return parts, starts


def scale_cases(ctx):
    """SCALE: the scope classes of the statement (true windows of one text, windows with noise in the overlap, unrelated
    strings, empty parts anywhere, a part shorter than the overlap) in alphabets whose code points exceed 127 / 255 / 65 535,
    surplus logit rows beyond 255 and beyond 65 535; a list of more than 255 parts merging to more than 1024 characters; two
    parts of more than 255 characters that overlap in more than 255.  `line` / `starts` are recorded for every list cut from
    one line; whether it still IS a list of windows (no noise, no inserted part) is decided by TLC (TrueWindows)."""
    rng = random.Random(ctx.seed * 6007 + 1507)
    out = []
    for name, chars in ALPHABETS:
        sym = S.ids_of(chars)
        for i in range(10 if ctx.tier == "quick" else 40):
            alpha = rng.sample(sym, rng.choice([2, 3, 4, len(sym)]))
            line = [rng.choice(alpha) for _ in range(rng.randint(7, 16))]
            w = rng.randint(4, 8)
            ov = rng.randint(1, w // 2)                      # process_lines overlaps its windows by a quarter
            parts, starts = _windows(line, w, ov)
            what = i % 5
            if what == 1 and len(parts) > 1:                 # recognition noise in an overlap
                p = rng.randrange(1, len(parts))
                j = rng.randrange(0, min(ov, len(parts[p])))
                parts[p] = list(parts[p])
                parts[p][j] = rng.choice([c for c in sym if c != parts[p][j]])
            elif what == 2:                                  # an empty part anywhere
                k = rng.randrange(0, len(parts) + 1)
                parts.insert(k, [])
                starts.insert(k, 1)
            elif what == 3:                                  # the last window lies wholly inside the overlap
                n = rng.randint(1, min(3, len(parts[-1])))
                parts.append(parts[-1][-n:])
                starts.append(len(line) - n + 1)
            extra = [rng.choice([0, 1, 3]) for _ in parts]
            if i == 0:
                extra[0] = 300
            elif i == 1:
                extra[-1] = 66000
            out.append({"kind": "scale", "alphabet": name, "line": line, "starts": starts, "parts": parts, "extra": extra})
        for i in range(4 if ctx.tier == "quick" else 12):     # unrelated strings, one of them short
            a = [rng.choice(sym) for _ in range(rng.randint(1, 6))]
            b = [rng.choice(sym) for _ in range(rng.randint(1, 6))]
            c = [rng.choice(sym[:2]) for _ in range(rng.randint(1, 3))]
            ps = [[a, b], [a, b, c], [c, a, b], [a, c + c]][i % 4]
            out.append({"kind": "scale", "alphabet": name, "line": [], "starts": [], "parts": ps, "extra": [0, 2, 1][:len(ps)]})
    # sizes: distinct-looking text over 4000 CJK code points, so that the first exact overlap is the real one
    many = [0x4e00 + rng.randrange(0, 4000) for _ in range(5 + 4 * 259)]
    parts, starts = _windows(many, 5, 1)
    out.append({"kind": "big", "alphabet": "cjk, %d parts" % len(parts), "line": many, "starts": starts, "parts": parts,
                "extra": [j % 3 for j in range(len(parts))]})
    long_line = [0x4e00 + rng.randrange(0, 4000) for _ in range(270 + 12)]
    parts, starts = _windows(long_line, 270, 258)
    out.append({"kind": "big", "alphabet": "cjk, overlap 258", "line": long_line, "starts": starts, "parts": parts, "extra": [0, 300]})
    return out


def engine_cases(ctx, n):
    """batches of 1-3 lines of 3-26 character cells (0 = blank cell: no character is recognised there)"""
    out = []
    for _ in range(n):
        lines = []
        for _ in range(ctx.rng.randint(1, 3)):
            ln = ctx.rng.choice([3, 8, 9, 12, 14, 15, 20, 21, 26])
            alpha = ctx.rng.choice([2, 4])
            blank = ctx.rng.choice([0.0, 0.0, 0.3, 0.6])
            cells = [0 if ctx.rng.random() < blank else ctx.rng.randint(1, alpha) for _ in range(ln)]
            if ctx.rng.random() < 0.3 and ln > 12:
                a = ctx.rng.randint(4, ln - 8)
                cells[a:a + 8] = [0] * 8                      # a blank stretch longer than a window overlap
            lines.append(cells)
        out.append({"lines": lines, "workdir": ctx.workdir})
    return out


def signature(tr, prog):
    if prog >= len(tr["steps"]):
        return "final-result"
    st = tr["steps"][prog]
    if st["outcome"] != "ok":
        return "merge:%s" % st["outcome"]
    if prog == 0:
        return "single-part"
    return "merge:overlap-0" if st["o"] == 0 else "merge:overlap>0"


def describe(tr, prog):
    if prog >= len(tr["steps"]):
        return "parts %s merge to %r but the caller got %r with %d logits rows (%s)" % (
            [S.text_of(p) for p in tr["parts"]], S.text_of(tr["steps"][-1]["text"]), S.text_of([c for c in tr["final"]["text"] if c != 99]),
            len(tr["final"]["rows"]), tr["final"]["outcome"])
    st = tr["steps"][prog]
    prev = tr["steps"][prog - 1]["text"] if prog else []
    return ("parts %s: merging part %d %r into %r with detected overlap %d gave %r with %d logits rows (%s): length / kept prefix / "
            "kept suffix / row count / plain concatenation for overlap 0 (or an overlap with nothing in common) / ends with the last part in "
            "full for true windows of one text violated" % (
                [S.text_of(p) for p in tr["parts"]], prog + 1, S.text_of(tr["parts"][prog]), S.text_of(prev), st["o"],
                S.text_of([c for c in st["text"] if c != 99]), len(st["rows"]), st["outcome"]))


def judge(ctx, cases, traces, consts, label):
    acc, rej = ctx.validate("Stitch_Trace", traces, constants=consts, label="Stitch_Trace " + label,
                            shards=max(1, min(4, len(traces) // 2500)))
    drift = [i for i, p in rej if p == DRIFT]
    ctx.traces_validated += len(drift)
    for i, tr in enumerate(traces):
        nt = len(tr["parts"]) >= 2 and any(s["o"] > 0 for s in tr["steps"])
        ctx.count(1, repr((tr["parts"], tr["extra"])) if nt else None)
    for i in drift:
        ctx.model_drift("merged text / rows / detected overlap differ from the modelled slices (statement holds)", 1, cases[i])
    viol = [(i, p, signature(traces[i], p)) for i, p in rej if p != DRIFT]
    seen, first, rest = set(), [], []
    for v in viol:
        (first if v[2] not in seen else rest).append(v)
        seen.add(v[2])
    for i, p, sig in first + rest:
        ctx.violation({"case": cases[i], "constants": {k: (sorted(v) if isinstance(v, set) else v) for k, v in consts.items()},
                       "progress": p, "trace": traces[i]}, sig, describe(traces[i], p))
        ctx.notes.setdefault("rejections_by_signature", {}).setdefault(sig, 0)
        ctx.notes["rejections_by_signature"][sig] += 1
    bad = {i for i, _ in rej}
    return [tr for i, tr in enumerate(traces) if i not in bad]


def run(ctx):
    ctx.rule = ("every list of 1..n parts over {a,b[,c]} up to the length bound (incl. empty parts, unrelated strings, exact and noisy "
                "overlaps) x surplus logit rows, plus seeded windows of one text; merged on every prefix by the real "
                "merge_transcriptions_and_logits with tagged logits; non-trivial = some detected overlap > 0")
    ctx.exhaustive = True
    ctx.assume("logits have at least as many rows as characters (surplus 0-3 rows)",
               "reading (DESIGN.md Appendix D): cut of the merged text <= ceil(o/2); 'ends with the last part' in full only when the overlap "
               "is exact, otherwise from floor(o/2) on; the statement is applied to every merge of (text so far, next part)",
               "'detected overlap' = what find_best_overlap returns on (text so far, next part), a number of CHARACTERS of the transcription "
               "(one character = one logits row, whatever its code point)",
               "for true overlapping windows of one text without noise (TLC checks the recorded parts against the recorded line) 'ends "
               "with the last part' is asserted in full after every merge; a detected overlap whose two sides have CER >= 1 is 'no overlap'")
    selftest = False
    for b in bounds(ctx):
        ctx.tlc("Stitch", constants=constants(b), invariants=INVS, properties=PROPS, workers=4, timeout=3000, label="Stitch " + b["name"])
        cases = list(part_lists(b))
        traces = S.run_cases(cases)
        good = judge(ctx, cases, traces, constants(b), b["name"])
        pick = [t for t in good if len(t["parts"]) >= 2 and t["steps"][-1]["o"] > 0 and len(t["steps"][-1]["text"]) >= 2]
        if pick:
            ctx.sample({"config": b["name"], "trace": pick[len(pick) // 2]}, limit=3)
        if pick and not selftest:
            def corrupt(tr):
                tr["steps"][-1]["text"] = tr["steps"][-1]["text"][:-1]       # the last merged character is lost
                return tr
            ctx.selftest_corrupt("Stitch_Trace", pick[len(pick) // 2], corrupt, constants=constants(b))
            selftest = True
    ctx.tlc("Stitch", constants=constants({"alphabet": 2, "maxlen": 2, "parts": 2, "extras": [0]}, legacy=True), invariants=[],
            properties=PROPS, workers=2, expect_violation="MergeOK", label="Stitch Legacy=TRUE (self-test)")
    dj = disjoint_cases(ctx)
    judge(ctx, dj, S.run_cases(dj), {"Alphabet": {1, 2, 3, 4, 5}, "MaxLen": 9, "MaxParts": 9, "Extras": {0, 1}, "Legacy": False},
          "long parts over disjoint alphabets")
    # scale: alphabets beyond 255 / 65 535 code points, more than 255 parts / characters / surplus rows (TLC judges the recorded
    # integers with the same clauses + NoCommon + ends-in-full for what TLC itself recognises as true windows)
    sc = scale_cases(ctx)
    good = judge(ctx, sc, S.run_cases(sc), {"Alphabet": {1, 2, 3, 4, 5, 6, 7, 8}, "MaxLen": 9, "MaxParts": 9, "Extras": {0, 1, 3}, "Legacy": False},
                 "scale (alphabets, sizes)")
    astral = [t for t in good if t["line"] and len(t["parts"]) >= 2 and max(t["line"]) > 65535 and t["steps"][-1]["o"] > 0]
    if astral:
        ctx.sample({"config": "scale", "trace": astral[len(astral) // 2]}, limit=4)

    # binding of the added clauses: two true windows with exact overlap r recorded as if 2 r had been detected and cut (length,
    # kept prefix, kept suffix from floor(o/2) on and row count all agree with o = 2 r - only 'ends with the last part in
    # full' / 'nothing in common' can reject it)
    def doubled(tr):
        a, b, r = tr["parts"][0], tr["parts"][1], tr["steps"][1]["o"]
        st = tr["steps"][1]
        st["o"] = 2 * r
        st["text"] = a[:len(a) - r] + b[r:]
        st["rows"] = [[1, j] for j in range(1, len(a) - r + 1)] + [[2, j] for j in range(r + 1, len(b) + 1)]
        tr["final"] = {"text": list(st["text"]), "rows": [list(x) for x in st["rows"]], "outcome": "ok"}
        return tr
    pick = [t for t in astral if len(t["parts"]) == 2 and len(t["starts"]) == 2 and 1 <= t["steps"][1]["o"]
            and 2 * t["steps"][1]["o"] <= min(len(t["parts"][0]), len(t["parts"][1]))
            and t["parts"][0][-t["steps"][1]["o"]:] == t["parts"][1][:t["steps"][1]["o"]]
            and (t["parts"][0][:-t["steps"][1]["o"]] + t["parts"][1][t["steps"][1]["o"]:])[-len(t["parts"][1]):] != t["parts"][1]]
    if pick:
        ctx.selftest_corrupt("Stitch_Trace", pick[0], doubled, constants={"Alphabet": {1, 2}, "MaxLen": 9, "MaxParts": 9, "Extras": {0}, "Legacy": False})
    ctx.notes["scale_selftest"] = bool(pick)
    ctx.notes["scale_cases"] = len(sc)
    wins = window_cases(ctx, 400 if ctx.tier == "quick" else 4000)
    traces = S.run_cases(wins)
    good = judge(ctx, wins, traces, {"Alphabet": {1, 2, 3, 4}, "MaxLen": 9, "MaxParts": 9, "Extras": {0, 1, 3}, "Legacy": False},
                 "windows of one text")
    if good:
        ctx.sample({"config": "windows", "trace": good[len(good) // 2]}, limit=5)
    ctx.notes["windows_sampled"] = len(wins)
    # the same through BaseEngineLineOCR.process_lines (model_type="transformer") with a stub run_ocr
    ecases = engine_cases(ctx, 60 if ctx.tier == "quick" else 400)
    etraces, eorigin = [], []
    for c in ecases:
        for tr in S.run_engine_case(c):
            etraces.append(tr)
            eorigin.append({"engine": True, "lines": c["lines"], "line": tr["engine"]["line"]})
    good = judge(ctx, eorigin, etraces, {"Alphabet": {1, 2, 3, 4}, "MaxLen": 9, "MaxParts": 9, "Extras": {0, 1, 2}, "Legacy": False},
                 "process_lines with a stub engine")
    multi = [t for t in good if len(t["parts"]) >= 3]
    if multi:
        ctx.sample({"config": "process_lines", "trace": multi[len(multi) // 2]}, limit=6)
    ctx.notes["engine_lines"] = len(etraces)
    ctx.notes["explanation"] = ("TLC exhaustive on Stitch per bounds (invariants %s, action property MergeOK) + Legacy self-test; every part list "
                                "merged by pero_ocr.ocr_engine.line_ocr_engine.merge_transcriptions_and_logits on each prefix, validated by "
                                "Stitch_Trace (StepOK = verdict, modelled slices = drift); seeded windows beyond the TLC bounds are "
                                "conformance-only" % INVS)


def replay(ctx, case):
    consts = dict(case["constants"])
    for k in ("Alphabet", "Extras"):
        consts[k] = set(consts[k])
    c = case["case"]
    if c.get("engine"):
        trs = [t for t in S.run_engine_case({"lines": c["lines"], "workdir": ctx.workdir}) if t["engine"]["line"] == c["line"]]
        judge(ctx, [c] * len(trs), trs, consts, "replay")
    else:
        judge(ctx, [c], [S.run_case(c)], consts, "replay")
