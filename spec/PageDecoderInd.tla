--------------------------- MODULE PageDecoderInd ---------------------------
(* Unbounded counterpart of PageDecoder.tla for the isolation clause of C08, written for Apalache:
   any number of pages, any number of lines per page, one long-lived PageDecoder instance.

   The LM context (a set of <<page, line>> tags in PageDecoder.tla) is abstracted by a summary that is exact for the
   property: [empty, page, max, mixed] = "no tag" | "all tags belong to `page` and have line <= `max`" | mixed pages.
   IndInv is an inductive invariant: apalache-mc proves  IndInit => IndInv  and  IndInv /\ Next => IndInv'  (one step from
   an arbitrary state satisfying IndInv), hence Isolation holds in every reachable state for every history of pages of
   every length.  With Legacy = TRUE (last_line survives the page start, the defect repaired by /repo commit cf8865a) the
   induction step fails at PageStart.  PageDecoder.tla carries the refinement mapping (Abs == INSTANCE PageDecoderInd ...)
   and TLC checks on its bounded instances that every step of PageDecoder is a step of this module (PROPERTY Abs!Spec),
   which ties the unbounded proof to the specification that is bound to the code by trace validation.

     apalache-mc check --cinit=CInitRepaired --init=IndInit --inv=IndInv --length=1 PageDecoderInd.tla    (step)
     apalache-mc check --cinit=CInitRepaired --init=Init    --inv=IndInv --length=0 PageDecoderInd.tla    (base)   *)
EXTENDS Integers

CONSTANT
    \* @type: Bool;
    Legacy

VARIABLES
    \* @type: Bool;
    carry,
    \* @type: Int;
    cur,
    \* @type: Int;
    pos,
    \* @type: Bool;
    hHas,
    \* @type: Bool;
    hEmpty,
    \* @type: Int;
    hPage,
    \* @type: Int;
    hMax,
    \* @type: Bool;
    hMixed,
    \* @type: Bool;
    llHas,
    \* @type: Int;
    llPage,
    \* @type: Int;
    llLine,
    \* @type: Bool;
    fEmpty,
    \* @type: Bool;
    fMixed,
    \* @type: Int;
    fPage,
    \* @type: Int;
    fMax,
    \* @type: Int;
    fAtPage,
    \* @type: Int;
    fAtLine

CInitRepaired == Legacy = FALSE
CInitLegacy == Legacy = TRUE

Max2(a, b) == IF a >= b THEN a ELSE b

\* summary of the context the decoder starts from (StartCtx of PageDecoder.tla)
SEmpty == IF ~carry THEN TRUE ELSE IF hHas THEN hEmpty ELSE ~llHas
SMixed == IF ~carry THEN FALSE ELSE IF hHas THEN hMixed ELSE FALSE
SPage == IF hHas THEN hPage ELSE llPage
SMax == IF hHas THEN hMax ELSE llLine

Init == /\ carry \in BOOLEAN
        /\ cur = 0 /\ pos = 0
        /\ hHas = FALSE /\ hEmpty = TRUE /\ hPage = 0 /\ hMax = 0 /\ hMixed = FALSE
        /\ llHas = FALSE /\ llPage = 0 /\ llLine = 0
        /\ fEmpty = TRUE /\ fMixed = FALSE /\ fPage = 0 /\ fMax = 0 /\ fAtPage = 0 /\ fAtLine = 0

vars == <<carry, cur, pos, hHas, hEmpty, hPage, hMax, hMixed, llHas, llPage, llLine, fEmpty, fMixed, fPage, fMax, fAtPage, fAtLine>>
Keep == UNCHANGED <<fEmpty, fMixed, fPage, fMax, fAtPage, fAtLine>>
\* the summary fields mean nothing while no state / no line is held: they may take any value then
HFree == hEmpty' \in BOOLEAN /\ hPage' \in Int /\ hMax' \in Int /\ hMixed' \in BOOLEAN
LFree == llPage' \in Int /\ llLine' \in Int

PageStart == /\ cur = 0
             /\ cur' \in Int /\ cur' > 0
             /\ pos' = 1
             /\ hHas' = FALSE /\ HFree
             /\ IF Legacy THEN UNCHANGED <<llHas, llPage, llLine>> ELSE (llHas' = FALSE /\ LFree)
             /\ UNCHANGED carry /\ Keep

LineConfident == /\ cur > 0
                 /\ hHas' = FALSE /\ HFree
                 /\ llHas' = TRUE /\ llPage' = cur /\ llLine' = pos
                 /\ pos' = pos + 1 /\ UNCHANGED <<carry, cur>> /\ Keep

\* a confident line without a transcription: no state and no text is held afterwards
LineConfidentNoText == /\ cur > 0
                       /\ hHas' = FALSE /\ HFree
                       /\ llHas' = FALSE /\ LFree
                       /\ pos' = pos + 1 /\ UNCHANGED <<carry, cur>> /\ Keep

LineDecode == /\ cur > 0
              /\ fEmpty' = SEmpty /\ fAtPage' = cur /\ fAtLine' = pos
              /\ fMixed' \in BOOLEAN /\ fPage' \in Int /\ fMax' \in Int
              /\ (~SEmpty) => (fMixed' = SMixed /\ fPage' = SPage /\ fMax' = SMax)
              /\ IF carry
                 THEN /\ hHas' = TRUE /\ hEmpty' = FALSE
                      /\ hMixed' = (IF SEmpty THEN FALSE ELSE (SMixed \/ SPage # cur))
                      /\ hPage' = (IF SEmpty THEN cur ELSE SPage)
                      /\ hMax' = (IF SEmpty THEN pos ELSE Max2(SMax, pos))
                 ELSE UNCHANGED <<hHas, hEmpty, hPage, hMax, hMixed>>
              /\ llHas' = TRUE /\ llPage' = cur /\ llLine' = pos
              /\ pos' = pos + 1 /\ UNCHANGED <<carry, cur>>

\* a line that fails (no logits, or the decoder raises): possibly after last_h was re-primed from last_line
LineFail == /\ cur > 0
            /\ \/ UNCHANGED <<hHas, hEmpty, hPage, hMax, hMixed>>
               \/ /\ carry /\ ~hHas /\ llHas
                  /\ hHas' = TRUE /\ hEmpty' = FALSE /\ hMixed' = FALSE /\ hPage' = llPage /\ hMax' = llLine
            /\ pos' = pos + 1 /\ UNCHANGED <<carry, cur, llHas, llPage, llLine>> /\ Keep

PageEnd == /\ cur > 0
           /\ cur' = 0 /\ pos' \in Int
           /\ UNCHANGED <<carry, hHas, hEmpty, hPage, hMax, hMixed, llHas, llPage, llLine>> /\ Keep

Next == PageStart \/ LineConfident \/ LineConfidentNoText \/ LineDecode \/ LineFail \/ PageEnd
Spec == Init /\ [][Next]_vars

\* C08: the context a line is decoded from holds only earlier lines of the same page
Isolation == fEmpty \/ (~fMixed /\ fPage = fAtPage /\ fMax < fAtLine)

IndInv == /\ cur >= 0
          /\ (cur > 0) => pos >= 1
          /\ (cur > 0 /\ hHas /\ ~hEmpty) => (~hMixed /\ hPage = cur /\ hMax < pos)
          /\ (cur > 0 /\ llHas) => (llPage = cur /\ llLine < pos)
          /\ Isolation

\* an arbitrary state satisfying the invariant
IndInit == /\ carry \in BOOLEAN /\ cur \in Int /\ pos \in Int
           /\ hHas \in BOOLEAN /\ hEmpty \in BOOLEAN /\ hPage \in Int /\ hMax \in Int /\ hMixed \in BOOLEAN
           /\ llHas \in BOOLEAN /\ llPage \in Int /\ llLine \in Int
           /\ fEmpty \in BOOLEAN /\ fMixed \in BOOLEAN /\ fPage \in Int /\ fMax \in Int /\ fAtPage \in Int /\ fAtLine \in Int
           /\ IndInv
=============================================================================
