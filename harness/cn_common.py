"""C14 helper: replay addition histories on the real pero_ocr.decoding.confusion_networks functions and record
them in the ConfusionNet_Trace format (integers only: weights in thousandths, normalised weights in 1/10000,
column sums in ppm, path probabilities scaled by the product of the column sums * 1000)."""
import copy
import itertools
import math
import random

from pero_ocr.decoding import confusion_networks as CN
from pero_ocr.decoding.bag_of_hypotheses import BagOfHypotheses

from .core import pmap

LETTERS = "abcdefgh"
MAX_PATHS = 400
MAX_DEN = 2000000


def sym_id(c):
    if c is None:
        return 0
    if isinstance(c, str) and len(c) == 1 and c in LETTERS:
        return LETTERS.index(c) + 1
    return 99          # a symbol that was never put in: outside Arcs, the trace is rejected as malformed


def text_of(h):
    return "".join(LETTERS[s - 1] for s in h)


def ids_of(seq):
    return [sym_id(c) for c in seq]


def strings(alphabet, maxlen):
    out = []
    for n in range(maxlen + 1):
        out += [list(p) for p in itertools.product(range(1, alphabet + 1), repeat=n)]
    return out


def _milli(x):
    if not isinstance(x, (int, float)) or not math.isfinite(x) or abs(x) > 2e6:
        return -1
    return int(round(x * 1000))


def project_net(cn, scale=1000):
    """list of dicts -> list of columns, column = sorted list of [symbol id, weight in 1/scale]"""
    out = []
    for col in cn:
        out.append(sorted([sym_id(k), (_milli(v) if scale == 1000 else _fixed(v, scale))] for k, v in col.items()))
    return out


def _fixed(x, scale):
    if not isinstance(x, (int, float)) or not math.isfinite(x) or abs(x) * scale > 2e9:
        return -1
    return int(round(x * scale))


def score_of(hyp, vw, lw):
    return hyp["vis"] ** vw * (hyp["lm"] ** lw if hyp["lm"] else 1)


def _final_part(net, normed=None, max_paths=None):
    """normalize_cn / sorted_cn_paths / best_cn_path on (a copy of) the last network; normed: the normalised network as the
    API itself returned it (produce_cn_from_boh with normalize=True), used instead of a direct normalize_cn call"""
    fin = {"outcome": "ok", "norm": [], "nsum": [], "has_paths": False, "pscale": 0, "paths": [], "best": []}
    try:
        sums = [sum(col.values()) for col in net]
        norm = CN.normalize_cn(copy.deepcopy(net)) if normed is None else normed
        fin["norm"] = project_net(norm, 10000)
        fin["nsum"] = [_fixed(sum(col.values()), 1000000) for col in norm]
        fin["best"] = ids_of(CN.best_cn_path(copy.deepcopy(norm)))
        den = 1
        combos = 1
        for s, col in zip(sums, net):
            den *= max(1, int(round(s)))
            combos *= len(col)
        if net and combos <= (max_paths or MAX_PATHS) and den <= MAX_DEN:
            fin["has_paths"] = True
            fin["pscale"] = den
            fin["paths"] = [{"s": ids_of(s), "p": _fixed(p, den * 1000)} for s, p in CN.sorted_cn_paths(copy.deepcopy(norm))]
    except Exception as ex:     # part of the observation
        fin["outcome"] = "exception:" + type(ex).__name__
    return fin


def _single_part(first, mode, vw, lw):
    single = {"outcome": "ok", "best": [], "paths": []}
    try:
        if mode == "boh":
            boh = BagOfHypotheses()
            boh.add(text_of(first["h"]), math.log(first["vis"]), math.log(first["lm"]) if first["lm"] else None)
            net = CN.produce_cn_from_boh(boh, visual_weight=float(vw), lm_weight=float(lw), normalize=True)
        else:
            net = CN.normalize_cn(CN.add_hypothese([], text_of(first["h"]), float(first["vis"])))
        single["best"] = ids_of(CN.best_cn_path(copy.deepcopy(net)))
        single["paths"] = [{"s": ids_of(s), "p": _fixed(p, 1000000)} for s, p in CN.sorted_cn_paths(copy.deepcopy(net))]
    except Exception as ex:
        single["outcome"] = "exception:" + type(ex).__name__
    return single


# ----------------------------------------------------------------------------------------------------------------------
# HISTORY: the caller LOOKS at the network while it is being built.  Every public function of confusion_networks.py that
# takes a network and is not documented as changing it, applied to the network the caller holds (still unnormalised), and
# the changing ones applied to a deep copy.  What they return is not judged here (the statement speaks about paths of the
# normalised network only); what is recorded is the network object the caller holds, AFTER the call.
def _combos(net):
    n = 1
    for col in net:
        n *= max(1, len(col))
    return n


READERS = {
    "get_pivot": lambda net: CN.get_pivot(net),
    "best_cn_path": lambda net: CN.best_cn_path(net),
    "sorted_cn_paths": lambda net: CN.sorted_cn_paths(net),
    "normalize_copy": lambda net: CN.normalize_cn(copy.deepcopy(net)),
    "paths_of_normalized_copy": lambda net: CN.sorted_cn_paths(CN.normalize_cn(copy.deepcopy(net))),
    "add_on_copy": lambda net: CN.add_hypothese(copy.deepcopy(net), "ab", 1.0),
}
ENUMERATING = ("sorted_cn_paths", "paths_of_normalized_copy")


def _do_reads(net, ops, max_paths=None):
    """the queries `ops` on the network `net` the caller holds -> records for the trace field reads[j]"""
    out = []
    for op in ops:
        if op in ENUMERATING and _combos(net) > (max_paths or MAX_PATHS):
            continue              # nobody enumerates 4^9 paths; decided from the network alone, so a replay decides the same
        r = {"op": op, "outcome": "ok"}
        try:
            READERS[op](net)
        except Exception as ex:     # part of the observation
            r["outcome"] = "exception:" + type(ex).__name__
        r["net"] = project_net(net)
        out.append(r)
    return out


def replay_history(case, max_paths=None):
    """case = {"mode": "add"|"boh", "hyps": [{"h": [..], "vis": int, "lm": int}], "vw": int, "lw": int}
    max_paths: enumerate the paths only for networks with at most that many arc combinations (default MAX_PATHS)
    optional case["reads_plan"][j] = names of READERS the caller applies to the network after the j-th addition (mode "add":
    the SAME network object then goes into the next add_hypothese call; the final part is taken after the last query)"""
    mode, hyps, vw, lw = case["mode"], case["hyps"], case["vw"], case["lw"]
    rec = {"mode": mode, "hyps": hyps, "vw": vw, "lw": lw, "outcome": [], "nets": []}
    plan = case.get("reads_plan")
    if plan is not None:
        rec["reads_plan"] = plan
        rec["reads"] = [[] for _ in hyps]
    net = []
    last_ok = []
    for j, hyp in enumerate(hyps):
        try:
            if mode == "add":
                # the network is handed on exactly as a caller would: the returned object goes into the next call
                net = CN.add_hypothese(net, text_of(hyp["h"]), float(score_of(hyp, vw, lw)))
            else:
                boh = BagOfHypotheses()
                for g in hyps[:j + 1]:
                    boh.add(text_of(g["h"]), math.log(g["vis"]), math.log(g["lm"]) if g["lm"] else None)
                net = CN.produce_cn_from_boh(boh, visual_weight=float(vw), lm_weight=float(lw), normalize=False)
            rec["nets"].append(project_net(net))
            rec["outcome"].append("ok")
            last_ok = copy.deepcopy(net)
        except Exception as ex:
            rec["nets"].append([])
            rec["outcome"].append("exception:" + type(ex).__name__)
            break
        if plan is not None and j < len(plan) and plan[j]:
            rec["reads"][j] = _do_reads(net, plan[j], max_paths)
            last_ok = copy.deepcopy(net)       # the caller goes on with the object it holds
    while len(rec["outcome"]) < len(hyps):
        rec["nets"].append([])
        rec["outcome"].append("not-run")
    normed = None
    if mode == "boh" and rec["outcome"] and all(o == "ok" for o in rec["outcome"]):
        # the bag API normalises by itself: take ITS normalised network (not a separate normalize_cn call)
        try:
            boh = BagOfHypotheses()
            for g in hyps:
                boh.add(text_of(g["h"]), math.log(g["vis"]), math.log(g["lm"]) if g["lm"] else None)
            normed = CN.produce_cn_from_boh(boh, visual_weight=float(vw), lm_weight=float(lw), normalize=True)
        except Exception:
            normed = None
    rec["fin"] = _final_part(last_ok, normed, max_paths)
    rec["single"] = _single_part(hyps[0], mode, vw, lw)
    return rec


def run_histories(cases, procs=6):
    return pmap(replay_history, cases, procs=procs)


def add_histories(alphabet, maxlen, adds, scores):
    """every history of exactly `adds` additions (shorter histories are their prefixes)"""
    opts = [{"h": h, "vis": s, "lm": 0} for h in strings(alphabet, maxlen) for s in scores]
    for combo in itertools.product(opts, repeat=adds):
        yield {"mode": "add", "hyps": [dict(c) for c in combo], "vw": 1, "lw": 1}


def boh_histories(alphabet, maxlen, adds, vis, lms, vw, lw):
    opts = [{"h": h, "vis": v, "lm": l} for h in strings(alphabet, maxlen) for v in vis for l in lms]
    for combo in itertools.product(opts, repeat=adds):
        yield {"mode": "boh", "hyps": [dict(c) for c in combo], "vw": vw, "lw": lw}


# ----------------------------------------------------------------------------------------------------------------------
# HISTORY: long-lived bags.  The statement is about every addition / every export of a bag, whatever the caller did with the
# same objects before.  A bag lives as long as its text line is worked on: it grows, is exported with several weight pairs,
# normalised and unnormalised, an export may fail, it is re-ordered with its own sort() - and is exported again.
def _add_to_bag(boh, g):
    boh.add(text_of(g["h"]), math.log(g["vis"]), math.log(g["lm"]) if g["lm"] else None)


def _failing_export(boh, lw):
    """an export of the long-lived bag that fails (a weight that is not a number); the exception is the caller's problem, the
    bag is used on afterwards"""
    try:
        CN.produce_cn_from_boh(boh, visual_weight=None, lm_weight=float(lw), normalize=False)
    except Exception:
        pass


def replay_reuse(case):
    """case as for replay_history (mode "boh").  Returns one or two traces of the ordinary format:
      grow    ONE bag object: add, export, add, export ... (nets[j] = export of the bag holding the first j+1 hypotheses); between
              the recorded exports the same bag is exported with another weight pair (normalised) and once with a failing call;
              the last recorded network is exported AFTER the bag's normalised export (fin.norm = that normalised export);
      resort  the same bag after its own sort(): hyps = the bag in its new iteration order; nets[j] for the proper prefixes come
              from fresh bags (as in replay_history), the LAST network and the normalised network are exports of the long-lived,
              re-ordered bag.  Judged by the ordinary step clause: the export of a bag of n hypotheses must be an addition step
              (score of the n-th hypothesis on one arc of every position ...) away from the export of its first n-1.
    Which bag methods are used: add, sort, iteration (transcript / vis_sc / lm_sc of the items, the interface produce_cn_from_boh
    itself consumes).  If sort() / iteration do not work the resort trace is left out (not C14's business)."""
    hyps, vw, lw = case["hyps"], case["vw"], case["lw"]
    rec = {"mode": "boh", "hyps": hyps, "vw": vw, "lw": lw, "outcome": [], "nets": [], "reuse": {"kind": "grow", "orig": hyps}}
    boh = BagOfHypotheses()
    normed, last_ok = None, []
    for j, hyp in enumerate(hyps):
        try:
            _add_to_bag(boh, hyp)
            if j % 2 == 0:
                CN.produce_cn_from_boh(boh, visual_weight=float(vw + 1), lm_weight=float(lw), normalize=True)
            else:
                _failing_export(boh, lw)
            if j == len(hyps) - 1:
                normed = CN.produce_cn_from_boh(boh, visual_weight=float(vw), lm_weight=float(lw), normalize=True)
            net = CN.produce_cn_from_boh(boh, visual_weight=float(vw), lm_weight=float(lw), normalize=False)
            rec["nets"].append(project_net(net))
            rec["outcome"].append("ok")
            last_ok = copy.deepcopy(net)
        except Exception as ex:
            rec["nets"].append([])
            rec["outcome"].append("exception:" + type(ex).__name__)
            break
    while len(rec["outcome"]) < len(hyps):
        rec["nets"].append([])
        rec["outcome"].append("not-run")
    complete = all(o == "ok" for o in rec["outcome"])
    rec["fin"] = _final_part(last_ok, normed if complete else None)
    rec["single"] = _single_part(hyps[0], "boh", vw, lw)
    if not complete:
        return [rec]
    # ---- the bag is re-ordered by its own method and exported again
    try:
        boh.sort()
        order = [(h.transcript, h.vis_sc, h.lm_sc) for h in boh]
    except Exception:
        return [rec]
    pool = {}
    for g in hyps:
        pool.setdefault((text_of(g["h"]), math.log(g["vis"]), math.log(g["lm"]) if g["lm"] else None), []).append(g)
    hyps2 = []
    for key in order:
        if not pool.get(key):
            return [rec]           # the re-ordered bag does not hold what was put in: not a statement of C14
        hyps2.append(pool[key].pop())
    if len(hyps2) != len(hyps):
        return [rec]
    rec2 = replay_history({"mode": "boh", "hyps": hyps2, "vw": vw, "lw": lw})
    rec2["reuse"] = {"kind": "resort", "orig": hyps}
    if all(o == "ok" for o in rec2["outcome"]):
        try:
            _failing_export(boh, lw)
            net = CN.produce_cn_from_boh(boh, visual_weight=float(vw), lm_weight=float(lw), normalize=False)
            rec2["nets"][-1] = project_net(net)
            normed = CN.produce_cn_from_boh(boh, visual_weight=float(vw), lm_weight=float(lw), normalize=True)
            rec2["fin"] = _final_part(copy.deepcopy(net), normed)
        except Exception as ex:
            rec2["nets"][-1] = []
            rec2["outcome"][-1] = "exception:" + type(ex).__name__
    return [rec, rec2]


def run_reuse(cases, procs=6):
    return [t for ts in pmap(replay_reuse, cases, procs=procs) for t in ts]


# ----------------------------------------------------------------------------------------------------------------------
# HISTORY x SCALE: one long-running process.  A decoding process adds hypotheses to networks all day; the statement holds for
# every single addition, however many additions (to whatever networks) the process has already made and whether the same
# (network, hypothesis) pair has been seen before.  A session = `n` DISTINCT two-step histories (base string, then one
# hypothesis) executed one after the other in ONE process (pass 1), two failing calls, then histories of pass 1 again (pass 2).
# n is chosen beyond 1024 and beyond 65 536.  Every recorded history is an ordinary trace (judged by the ordinary step
# clauses); only a sample is recorded (TLC could not validate 140 000 traces in the quick tier): the other histories of pass 1
# are executed but not looked at (an exception among them is recorded), pass 2 consists of the sampled histories, half of them
# from the histories the process executed first.  Paths are enumerated for the small networks only (SESSION_MAX_PATHS).
SESSION_MAX_PATHS = 48
def session_pairs(spec):
    """deterministic: all (base, hypothesis) pairs of the session in execution order, with their scores"""
    rng = random.Random(spec["seed"])
    k = spec["alphabet"]
    hyps = strings(k, spec["maxlen"])
    bases = []
    lens = spec["base_lens"]
    while len(bases) < spec["bases"]:
        b = [rng.randint(1, k) for _ in range(lens[len(bases) % len(lens)])]
        if b not in bases:
            bases.append(b)
    pairs = [(b, h) for b in bases for h in hyps]
    rng.shuffle(pairs)
    return [{"mode": "add", "vw": 1, "lw": 1,
             "hyps": [{"h": b, "vis": 1 + (i + len(h)) % 3, "lm": 0}, {"h": h, "vis": 1 + i % 2, "lm": 0}]}
            for i, (b, h) in enumerate(pairs)]


def session_recorded(spec, n):
    """indices recorded in pass 1 / executed and recorded in pass 2 (deterministic)"""
    rng = random.Random(spec["seed"] + 1)
    one = set(rng.sample(range(n), min(n, spec["rec1"])))
    if spec["rec2"] >= n:
        two = list(range(n))
    else:
        # half of the sample from the pairs executed first (the ones a bounded memory has had to give up), half from all
        head = max(1, int(n * spec["head"]))
        two = sorted(set(rng.sample(range(head), min(head, spec["rec2"] // 2))) | set(rng.sample(range(n), spec["rec2"] // 2)))
    return one, two


def _bare(case):
    """the two additions, nothing recorded"""
    net = []
    for hyp in case["hyps"]:
        net = CN.add_hypothese(net, text_of(hyp["h"]), float(score_of(hyp, case["vw"], case["lw"])))


def _failed(case, ex):
    rec = dict(case, outcome=["exception:" + type(ex).__name__] * len(case["hyps"]), nets=[[] for _ in case["hyps"]])
    rec["fin"] = {"outcome": "not-run", "norm": [], "nsum": [], "has_paths": False, "pscale": 0, "paths": [], "best": []}
    rec["single"] = {"outcome": "not-run", "best": [], "paths": []}
    return rec


def _failing_adds():
    """two calls that fail, on throw-away networks: a transcript that is no sequence, and a score that is no number (fails in
    the middle of the walk).  What they raise is their caller's problem; the process goes on."""
    for transcript, score in ((12345, 1.0), ("abab", None)):
        try:
            CN.add_hypothese(CN.add_hypothese([], "abba", 1.0), transcript, score)
        except Exception:
            pass


def run_session(spec, only=None):
    """all traces recorded in the session (each with "session": {"spec", "pass", "index"}); only = (pass, index): stop there and
    return just that trace (replay: the history before it is re-executed)"""
    cases = session_pairs(spec)
    one, two = session_recorded(spec, len(cases))
    out = []

    def step(p, i, record):
        if record:
            tr = replay_history(cases[i], SESSION_MAX_PATHS)
        else:
            try:
                _bare(cases[i])
                return None
            except Exception as ex:      # part of the observation even where nothing else is recorded
                tr = _failed(cases[i], ex)
        tr["session"] = {"spec": spec, "pass": p, "index": i}
        return tr
    for i in range(len(cases)):
        tr = step(1, i, i in one or only == (1, i))
        if only == (1, i):
            return [tr]
        if tr is not None:
            out.append(tr)
    _failing_adds()
    for i in two:
        tr = step(2, i, True)
        if only == (2, i):
            return [tr]
        out.append(tr)
    return out if only is None else []


def run_sessions(specs):
    """every session in its own (forked) process, at most two at a time"""
    if len(specs) < 2:
        return [t for s in specs for t in run_session(s)]
    import multiprocessing as mp
    with mp.get_context("fork").Pool(2) as pool:
        return [t for ts in pool.map(run_session, specs, chunksize=1) for t in ts]
