"""Shared by the C02 and C03 drivers: drive the real CTCPrefixLogRawNumpyDecoder over every matrix of a
bounded shape and record the executions in the CtcDecoder_Trace format."""
import itertools
import math
import random

import numpy as np

from pero_ocr.decoding.decoders import CTCPrefixLogRawNumpyDecoder, BLANK_SYMBOL

from .core import pmap


def hash_of(p):
    h = 1
    for c in p:
        h = (h * 31 + c) % 97
    return h


def lm_w(hist, c):
    return 1 + ((7 * hash_of(hist) + 3 * c) % 3)


def eos_w(hist):
    return 1 + (hash_of(hist) % 3)


class ToyH:
    """LM hidden state = list of histories (tuples of 1-based character numbers); supports the fancy
    indexing / slice assignment the decoder applies to hidden-state arrays."""
    def __init__(self, ps):
        self.ps = list(ps)

    def __getitem__(self, idx):
        return ToyH([self.ps[int(i)] for i in np.atleast_1d(idx)])

    def __setitem__(self, pos, other):
        for k, i in enumerate(pos):
            self.ps[int(i)] = other.ps[k]


DEEP_E = 100


class ToyLM:
    """e > 1 ("deep" flavour): the same LM raised to the power e, i.e. every log-probability multiplied by e, so that single
    continuations score far below -80 (down to e * log(1/m)).  Used with LM scale s / e and insertion bonus e * log(Bonus) the
    fused objective vis + scale * LM is unchanged, hence the same TLC model applies; the reported LM scores are divided by e
    when they are recorded."""

    def __init__(self, nc, m, e=1):
        self.nc, self.m, self.e = nc, m, e

    def initial_h(self, n):
        return ToyH([()] * n)

    def log_probs(self, h):
        return self.e * np.array([[math.log(lm_w(p, c) / self.m) for c in range(1, self.nc + 1)] for p in h.ps])

    def advance_h0(self, c_inds, h):
        return ToyH([p + (int(c) + 1,) for p, c in zip(h.ps, c_inds)])

    def eos_scores(self, h):
        return self.e * np.array([math.log(eos_w(p) / self.m) for p in h.ps])


# ---- the same toy LM behind the REAL LMWrapper / HiddenState (pero_ocr/decoding/lm_wrapper.py) -------------------------
# hidden state = one float64 scalar per beam entry holding the history in base 8 behind a leading 1
# (vocabulary: 0 = '</s>', 1..NC = characters), so that the torch-side state *is* the context, exactly (< 2^53).
def _digits(x):
    n = int(round(float(x)))
    ds = []
    while n > 1:
        ds.append(n % 8)
        n //= 8
    return tuple(reversed(ds))


def history_of_scalar(x):
    """history (1-based character numbers) encoded in a hidden-state scalar; '</s>' digits are separators and dropped"""
    return tuple(d for d in _digits(x) if d != 0)


def make_wrapped_lm(nc, m):
    import torch
    from pero_ocr.decoding.lm_wrapper import LMWrapper

    class Model(torch.nn.Module):
        def forward(self, xs, hs):
            h = hs.clone()
            for j in range(xs.shape[1]):
                h = h * 8 + xs[:, j].to(h.dtype).view(1, -1, 1)
            return None, h

        def init_hidden(self, bsz):
            return torch.ones((1, bsz, 1), dtype=torch.float64)

    class Decoder(torch.nn.Module):
        def forward(self, hs):            # (B, 1) -> (B, 1 + NC) log-probabilities over ['</s>', chars...]
            rows = []
            for x in hs.reshape(-1).tolist():
                hist = history_of_scalar(x)
                rows.append([math.log(eos_w(hist) / m)] + [math.log(lm_w(hist, c) / m) for c in range(1, nc + 1)])
            return torch.tensor(rows, dtype=torch.float64)

    class Lm(torch.nn.Module):
        def __init__(self):
            super().__init__()
            self.model = Model()
            self.decoder = Decoder()
            self.vocab = {'</s>': 0}
            self.vocab.update({chr(97 + i): i + 1 for i in range(nc)})
            self._unused_prefix_len = 1

    return LMWrapper(Lm(), [chr(97 + i) for i in range(nc)], torch.device("cpu"))


def wrapped_state(hist):
    """HiddenState for a supplied initial history (start symbol, then the characters)"""
    import torch
    from pero_ocr.decoding.lm_wrapper import HiddenState
    x = 1 * 8 + 0
    for c in hist:
        x = x * 8 + c
    return HiddenState(torch.full((1, 1, 1), float(x), dtype=torch.float64))


def rows_of(nc, d, normalised=True):
    # unnormalised rows go up to weight d + 1: a single symbol may carry more than the whole probability mass (log-prob > 0)
    rows = itertools.product(range(d + 1 if normalised else d + 2), repeat=nc + 1)
    return [r for r in rows if (sum(r) == d or not normalised)]


def all_matrices(t, nc, d, normalised=True):
    return itertools.product(rows_of(nc, d, normalised), repeat=t)


def selector(name, d):
    if name == "default":
        return None
    if name == "all":
        return lambda logits: (np.arange(logits.shape[0]),)
    if name == "thr1":
        thr = math.log(1.5 / d)
        return lambda logits: np.nonzero(logits > thr)
    raise ValueError(name)


def _milli(x):
    if not np.isfinite(x) or abs(x) > 2e6:
        return -1
    return int(round(x * 1000))


_CFG = {}


def _decode_one(mat):
    c = _CFG
    t_, nc, d, m = c["T"], c["NC"], c["D"], c["M"]
    dec = c["dec"]
    probs = np.array([[r[ch] for ch in range(1, nc + 1)] + [r[0]] for r in mat], dtype=float) / d
    if c.get("tiny"):
        # weight-1 entries become probabilities of 1e-6 (log -13.8, below the default pre-selection threshold -10); what they
        # lose goes to the largest entry of the row, so the row stays normalised and its zero pattern unchanged
        for row in probs:
            small = np.isclose(row, 1.0 / d)
            big = ~small & (row > 0)
            if small.any() and big.any():
                gain = (1.0 / d - 1e-6) * small.sum()
                row[small] = 1e-6
                row[int(np.argmax(np.where(big, row, -1.0)))] += gain
            elif small.any():
                # every non-zero entry has weight 1 (e.g. [1, 0, 1, 1] for D = 3): the first of them receives the mass, a ZERO
                # entry never does - the zero pattern must stay that of the model's matrix
                idx = np.nonzero(small)[0]
                row[idx[1:]] = 1e-6
                row[idx[0]] = 1.0 - 1e-6 * (len(idx) - 1)
    with np.errstate(divide="ignore", invalid="ignore"):
        lp = np.log(probs)
    rec = {"mat": [list(r) for r in mat], "frames": [], "outcome": "ok", "best": [], "confset": [],
           "has_h": False, "hret": [], "support": bool(c.get("tiny"))}
    use_lm, eos = c["UseLm"], c["Eos"]
    wrapped = c.get("lm_impl") == "wrapped"
    if wrapped:
        init_h = wrapped_state((c["H0"],)) if (use_lm and c["H0"]) else None
    else:
        init_h = ToyH([(c["H0"],)]) if (use_lm and c["H0"]) else None
    # The specification has no state across calls (Init always starts from the lone empty prefix), while the real decoder
    # object is long-lived (one instance decodes every line of every page).  To let a leak through the instance show up as a
    # trace mismatch, the shared instance first decodes, for a deterministic quarter of the cases, two degenerate lines
    # (blank-only and nearly blank-only: they take the all-pruned shortcut) with the full set of options.
    if (hash_of([x for r in mat for x in r]) + c.get("salt", 0)) % 4 == 0:
        for row in ([d] + [0] * nc, [d - 1, 1] + [0] * (nc - 1)):
            with np.errstate(divide="ignore", invalid="ignore", over="ignore"):
                plp = np.log(np.array([row[1:] + row[:1]] * t_, dtype=float) / d)
                try:
                    if use_lm:
                        dec(plp, model_eos=bool(eos), return_h=True, init_h=init_h)
                    else:
                        dec(plp)
                except Exception:
                    pass
    try:
        with np.errstate(divide="ignore", invalid="ignore", over="ignore"):
            for t in range(1, t_ + 1):
                last = t == t_
                kw = {}
                if use_lm:
                    kw = {"model_eos": bool(eos and last), "init_h": init_h}
                if last and use_lm:
                    boh, hret = dec(lp[:t], return_h=True, **kw)
                    rec["has_h"] = True
                    hist = history_of_scalar(hret.prepare_for_torch().reshape(-1)[0]) if wrapped else tuple(hret.ps[0])
                    rec["hret"] = [int(x) for x in hist]
                else:
                    boh = dec(lp[:t], **kw)
                beam = []
                for h in boh:
                    ln = len(h.transcript)
                    vis = math.exp(h.vis_sc) * d ** t
                    if use_lm:
                        lm = math.exp(h.lm_sc / c.get("lm_e", 1)) * m ** (ln + (1 if (eos and last) else 0))
                    else:
                        lm = 1.0
                    beam.append({"p": [ord(ch) - 96 for ch in h.transcript], "s": _milli(vis), "l": _milli(lm)})
                rec["frames"].append(beam)
                if last:
                    rec["best"] = [ord(ch) - 96 for ch in boh.best_hyp()]
                    conf = boh.confidence()
                    post = boh.posteriors()
                    rec["confset"] = [[ord(ch) - 96 for ch in h.transcript] for h, p in zip(boh, post)
                                      if abs(math.exp(p) - conf) <= 1e-9]
    except ValueError as ex:
        if "normalized" in str(ex):
            rec["outcome"] = "rejected"
            rec["frames"] = []
        else:
            rec["outcome"] = "exception:" + type(ex).__name__
    except Exception as ex:  # any failure of the real code is part of the observation, never of the harness
        rec["outcome"] = "exception:" + type(ex).__name__
    return rec


def run_config(cfg, mats):
    """cfg: dict with T NC D K Thr(selector name) UseLm M SP SQ Bonus Eos H0.  Returns list of traces."""
    global _CFG
    letters = [chr(97 + i) for i in range(cfg["NC"])] + [BLANK_SYMBOL]
    kw = {}
    sel = selector(cfg["selector"], cfg["D"])
    if sel is not None:
        kw["relevant_logits_selector"] = sel
    if cfg["UseLm"]:
        e = DEEP_E if cfg.get("lm_impl") == "deep" else 1
        cfg = dict(cfg, lm_e=e)
        lm = make_wrapped_lm(cfg["NC"], cfg["M"]) if cfg.get("lm_impl") == "wrapped" else ToyLM(cfg["NC"], cfg["M"], e)
        kw.update(lm=lm, lm_scale=cfg["SP"] / cfg["SQ"] / e, insertion_bonus=e * math.log(cfg["Bonus"]))
    k = cfg["K"]
    dec = CTCPrefixLogRawNumpyDecoder(letters, k, **kw)
    _CFG = dict(cfg)
    _CFG["dec"] = dec
    # seeded order: which lines precede which on the shared decoder instance varies with VERIF_SEED
    mats = list(mats)
    order = list(range(len(mats)))
    random.Random(cfg.get("salt", 0)).shuffle(order)
    res = pmap(_decode_one, [mats[i] for i in order])
    out = [None] * len(mats)
    for k, i in enumerate(order):
        out[i] = res[k]
    return out


def tla_constants(cfg):
    return {"T": cfg["T"], "NC": cfg["NC"], "D": cfg["D"], "K": cfg["K"],
            "Thr": 1 if cfg["selector"] == "thr1" else 0, "UseLm": bool(cfg["UseLm"]), "M": cfg["M"],
            "SP": cfg["SP"], "SQ": cfg["SQ"], "Bonus": cfg["Bonus"], "Eos": bool(cfg["Eos"]), "H0": cfg["H0"],
            "Unnorm": bool(cfg.get("Unnorm", False)), "SampleMats": set()}


def base_cfg(**kw):
    c = {"T": 3, "NC": 2, "D": 4, "K": 2, "selector": "default", "UseLm": False, "M": 4, "SP": 1, "SQ": 1,
         "Bonus": 1, "Eos": False, "H0": 0, "Unnorm": False}
    c.update(kw)
    return c


def first_bad_clause(trace, progress, cfg):
    """human-readable hint for a rejected trace: which event was the first not matched"""
    t_ = cfg["T"]
    if trace["outcome"] != "ok":
        return "outcome=%s not allowed by the specification" % trace["outcome"]
    if progress < t_:
        return "beam after frame %d is not a Frame successor of the beam after frame %d" % (progress + 1, progress)
    return "beam after the last frame or final bag rejected (mass / EOS score / best_hyp not a maximiser of vis+scale*lm / confidence / returned LM state)"
