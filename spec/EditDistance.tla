---------------------------- MODULE EditDistance ----------------------------
(* The edit-distance family of pero_ocr/sequence_alignment.py as rolling-row machines, one Step per source
   symbol, checked against the recursive definition of the minimum edit cost (C13).

   Plain machine (levenshtein_distance / levenshtein_alignment / levenshtein_alignment_path):
     row   the rolling cost row over target prefixes 0..N, initial row j * ins;
           per source symbol: deletion (+del) or substitution from the old left neighbour where strictly cheaper,
           then the left-to-right insertion relaxation sweep;
     bt    the backtrack matrix, one row per Step: 1 = source symbol alone (deletion), 0 = pair,
           -1 = target symbol alone (insertion); row 0 is all -1;
     Backtrack walks bt from (|src|, |tgt|) to (0, 0) and yields the alignment as pairs <<s, t>> (0 = empty symbol).
   Substring machine (levenshtein_distance_substring / levenshtein_alignment_substring, unit costs):
     the shorter sequence is the target; srow has one extra last cell = best cost of a match ending so far;
     cell 0 stays 0 (free start in the longer sequence); sbt has the extra last column recording where the best
     end was improved (-1), tied (0) or kept (1); SubBacktrack cuts the free suffix, walks back and flips the pairs
     when the arguments were swapped.
   The module models the REPAIRED initial row (j * ins insertion costs, best cell = |target|).  Legacy = TRUE is
   the current tree: initial row 0, inf, inf, ..., best cell inf -- an insertion before the first matched symbol
   is impossible and two empty sequences are at distance inf.

   Properties at the bottom: DistanceExact, AlignExact, StatsExact, SubstringExact, SubAlignExact.          *)
EXTENDS Integers, Sequences, FiniteSets, TLC, SequencesExt
CONSTANTS Alphabet,   \* symbols: positive integers
          MaxLen,     \* longest sequence
          Costs,      \* set of <<sub, ins, del>> triples of positive integers
          Legacy

Inf == 999
Plus(a, b) == IF a >= Inf THEN Inf ELSE a + b      \* inf + x = inf
Min2(a, b) == IF a < b THEN a ELSE b
MinOf(S) == CHOOSE m \in S : \A o \in S : m <= o
Strs == UNION {[1..n -> Alphabet] : n \in 0..MaxLen}

\* ---------------------------------------------------------------- the definitions the property refers to
\* c = <<sub, ins, del>>; ins = cost of a target symbol without a source partner, del = source symbol without partner
RECURSIVE Lev(_, _, _)
Lev(s, t, c) ==
  IF s = <<>> THEN Len(t) * c[2]
  ELSE IF t = <<>> THEN Len(s) * c[3]
  ELSE MinOf({ Lev(Front(s), t, c) + c[3], Lev(s, Front(t), c) + c[2],
               Lev(Front(s), Front(t), c) + (IF Last(s) = Last(t) THEN 0 ELSE c[1]) })
\* the same quantity row by row (Wagner-Fischer).  TLC proves DefinitionsAgree (LevDP = Lev) on every pair of the design
\* bounds; the trace layer uses LevDP beyond them (the recursion above is exponential) through LevAny.
Min3(a, b, c) == IF a <= b /\ a <= c THEN a ELSE IF b <= c THEN b ELSE c
LevRow(prev, ch, t, c) ==
  LET RECURSIVE f(_, _)
      f(j, acc) == IF j > Len(t) THEN acc
                   ELSE f(j + 1, acc @@ (j :> Min3(prev[j] + c[3], acc[j - 1] + c[2], prev[j - 1] + (IF t[j] = ch THEN 0 ELSE c[1]))))
  IN f(1, (0 :> prev[0] + c[3]))
LevDP(s, t, c) ==
  LET RECURSIVE g(_, _)
      g(k, r) == IF k > Len(s) THEN r[Len(t)] ELSE g(k + 1, LevRow(r, s[k], t, c))
  IN g(1, [j \in 0..Len(t) |-> j * c[2]])
LevAny(s, t, c) == IF Len(s) <= 4 /\ Len(t) <= 4 THEN Lev(s, t, c) ELSE LevDP(s, t, c)
Unit == <<1, 1, 1>>
Substrings(s) == {SubSeq(s, a, b) : a \in 1..Len(s) + 1, b \in 0..Len(s)}
Longer(a, b) == IF Len(b) > Len(a) THEN b ELSE a       \* the code swaps iff len(target) > len(source)
Shorter(a, b) == IF Len(b) > Len(a) THEN a ELSE b
LevSub(a, b) == LET small == Len(Longer(a, b)) <= 4          \* inside the design bounds: the recursive definition
                IN MinOf({IF small THEN Lev(u, Shorter(a, b), Unit) ELSE LevDP(u, Shorter(a, b), Unit) : u \in Substrings(Longer(a, b))})

\* alignments are sequences of pairs <<s, t>>, 0 = the empty symbol
ProjS(al) == SelectSeq([k \in 1..Len(al) |-> al[k][1]], LAMBDA x : x # 0)
ProjT(al) == SelectSeq([k \in 1..Len(al) |-> al[k][2]], LAMBDA x : x # 0)
PairCost(p, c) == IF p[1] = 0 THEN c[2] ELSE IF p[2] = 0 THEN c[3] ELSE IF p[1] = p[2] THEN 0 ELSE c[1]
RECURSIVE AlCost(_, _)
AlCost(al, c) == IF al = <<>> THEN 0 ELSE PairCost(Head(al), c) + AlCost(Tail(al), c)
NoEmptyPair(al) == \A k \in 1..Len(al) : al[k] # <<0, 0>>
\* a correct alignment of s and t: projects to both inputs and has the minimum cost
GoodAlignment(al, s, t, c) == NoEmptyPair(al) /\ ProjS(al) = s /\ ProjT(al) = t /\ AlCost(al, c) = LevAny(s, t, c)
\* path form (levenshtein_alignment_path): 1 = source only, 0 = both, -1 = target only
RECURSIVE PathPairs(_, _, _)
PathPairs(path, s, t) ==
  IF path = <<>> THEN <<>>
  ELSE IF Head(path) = 1 THEN (IF s = <<>> THEN << <<0, 0>> >> ELSE << <<Head(s), 0>> >> \o PathPairs(Tail(path), Tail(s), t))
  ELSE IF Head(path) = -1 THEN (IF t = <<>> THEN << <<0, 0>> >> ELSE << <<0, Head(t)>> >> \o PathPairs(Tail(path), s, Tail(t)))
  ELSE (IF s = <<>> \/ t = <<>> THEN << <<0, 0>> >> ELSE << <<Head(s), Head(t)>> >> \o PathPairs(Tail(path), Tail(s), Tail(t)))
GoodPath(path, s, t, c) == GoodAlignment(PathPairs(path, s, t), s, t, c)

\* substring alignment: (long side, short side); the free part = leading and trailing pairs whose short-side
\* element is empty
RECURSIVE StripLead(_, _)
StripLead(al, side) == IF al # <<>> /\ Head(al)[side] = 0 THEN StripLead(Tail(al), side) ELSE al
RECURSIVE StripTrail(_, _)
StripTrail(al, side) == IF al # <<>> /\ Last(al)[side] = 0 THEN StripTrail(Front(al), side) ELSE al
Core(al, side) == StripTrail(StripLead(al, side), side)
\* al is in argument order <<a-symbol, b-symbol>>; the shorter argument is the matched ("target") side
GoodSubAlignment(al, a, b) ==
  LET side == IF Len(b) > Len(a) THEN 1 ELSE 2
  IN /\ NoEmptyPair(al) /\ ProjS(al) = a /\ ProjT(al) = b
     /\ AlCost(Core(al, side), Unit) = LevSub(a, b)

\* edit_stats_for_alignment: <<nphn, ncor, nins, ndel, nsub>>
EditStats(al) ==
  LET cnt(P(_)) == Cardinality({k \in 1..Len(al) : P(al[k])})
      ncor == cnt(LAMBDA p : p[1] = p[2])
      ndel == cnt(LAMBDA p : p[1] = 0)
      nphn == cnt(LAMBDA p : p[2] # 0)
      nins == Len(al) - nphn
  IN <<nphn, ncor, nins, ndel, nphn - ncor - ndel>>

\* ---------------------------------------------------------------- the machines
VARIABLES src, tgt, cost,          \* inputs
          i,                       \* symbols of the (longer) source consumed
          row, bt,                 \* plain machine
          ssrc, stgt, srow, sbt,   \* substring machine
          phase, al, sal           \* "scan" | "done"; alignments produced by the backtracks
vars == <<src, tgt, cost, i, row, bt, ssrc, stgt, srow, sbt, phase, al, sal>>
N == Len(tgt)
SN == Len(stgt)

\* insertion relaxation sweep over cells 1..n: <<row, backtrack row>>
RECURSIVE Sweep(_, _, _, _, _)
Sweep(r, b, j, n, ins) ==
  IF j > n THEN <<r, b>>
  ELSE IF r[j] > Plus(r[j - 1], ins)
       THEN Sweep([r EXCEPT ![j] = Plus(r[j - 1], ins)], [b EXCEPT ![j] = -1], j + 1, n, ins)
       ELSE Sweep(r, b, j + 1, n, ins)

\* TLC keeps [j \in S |-> e] as an unevaluated closure; a row defined from the previous row would re-evaluate the whole chain of
\* earlier rows on every access (exponential in the number of source symbols).  f @@ <<>> yields the explicit table.
Explicit(f) == f @@ <<>>

\* one source symbol of the plain machine: <<new row, new backtrack row>>
PlainFn(r, s, t, c) ==
  LET n == Len(t)
      c4s(j) == r[j - 1] + (IF t[j] = s THEN 0 ELSE c[1])
      d1(j) == r[j] + c[3]
      sub(j) == j >= 1 /\ c4s(j) < d1(j)
      r1 == [j \in 0..n |-> IF sub(j) THEN c4s(j) ELSE d1(j)]
      b1 == [j \in 0..n |-> IF sub(j) THEN 0 ELSE 1]
  IN Sweep(Explicit(r1), Explicit(b1), 1, n, c[2])

\* one source symbol of the substring machine (unit costs): <<new row, new backtrack row>>
SubFn(r, s, t) ==
  LET n == Len(t)
      c4s(j) == Plus(r[j - 1], IF t[j] = s THEN 0 ELSE 1)
      d1(j) == Plus(r[j], 1)
      inner(j) == j >= 1 /\ j <= n
      sub(j) == inner(j) /\ c4s(j) < d1(j)
      r1 == [j \in 0..n + 1 |-> IF sub(j) THEN c4s(j) ELSE IF inner(j) THEN d1(j) ELSE r[j]]
      b1 == [j \in 0..n + 1 |-> IF sub(j) THEN 0 ELSE 1]
      sw == Sweep(Explicit(r1), Explicit(b1), 1, n, 1)
      r2 == sw[1]
      b2 == sw[2]
  IN IF r2[n + 1] = r2[n] THEN <<r2, [b2 EXCEPT ![n + 1] = 0]>>                         \* best end tied here
     ELSE IF r2[n + 1] > r2[n] THEN <<[r2 EXCEPT ![n + 1] = r2[n]], [b2 EXCEPT ![n + 1] = -1]>>   \* improved here
     ELSE <<r2, b2>>

PlainInit(t, c) == << [j \in 0..Len(t) |-> j * c[2]], << [j \in 0..Len(t) |-> -1] >> >>
SubInit(t) == LET n == Len(t)
              IN << [j \in 0..n + 1 |-> IF Legacy THEN (IF j = 0 THEN 0 ELSE Inf) ELSE (IF j = n + 1 THEN n ELSE j)],
                    << [j \in 0..n + 1 |-> -1] >> >>

Init == /\ src \in Strs /\ tgt \in Strs /\ cost \in Costs /\ i = 0 /\ phase = "scan" /\ al = <<>> /\ sal = <<>>
        /\ row = PlainInit(tgt, cost)[1] /\ bt = PlainInit(tgt, cost)[2]
        /\ ssrc = Longer(src, tgt) /\ stgt = Shorter(src, tgt)
        /\ srow = SubInit(Shorter(src, tgt))[1] /\ sbt = SubInit(Shorter(src, tgt))[2]

PlainStep == IF i < Len(src)
             THEN LET st == PlainFn(row, src[i + 1], tgt, cost) IN row' = st[1] /\ bt' = Append(bt, st[2])
             ELSE UNCHANGED <<row, bt>>
SubStep == IF i < Len(ssrc)
           THEN LET st == SubFn(srow, ssrc[i + 1], stgt) IN srow' = st[1] /\ sbt' = Append(sbt, st[2])
           ELSE UNCHANGED <<srow, sbt>>

Step == /\ phase = "scan" /\ (i < Len(src) \/ i < Len(ssrc))
        /\ i' = i + 1
        /\ PlainStep /\ SubStep
        /\ UNCHANGED <<src, tgt, cost, ssrc, stgt, phase, al, sal>>

\* walk a backtrack matrix (sequence of rows, row r+1 = after r source symbols) from (sp, tp) to (0, 0)
RECURSIVE Walk(_, _, _, _, _)
Walk(m, s, t, sp, tp) ==
  IF sp = 0 /\ tp = 0 THEN <<>>
  ELSE LET w == m[sp + 1][tp]
           sp2 == IF w >= 0 THEN sp - 1 ELSE sp
           tp2 == IF w <= 0 THEN tp - 1 ELSE tp
       IN Append(Walk(m, s, t, sp2, tp2), <<IF w < 0 THEN 0 ELSE s[sp2 + 1], IF w > 0 THEN 0 ELSE t[tp2 + 1]>>)

SubAlignOf(m_, ss, st, swapped) ==
  LET m == Len(ss)
      n == Len(st)
      lastcol(r) == m_[r + 1][n + 1]                 \* r = 0..m
      sb == IF \E r \in 0..m : lastcol(r) > 0
            THEN 1 + (CHOOSE r \in 0..m : lastcol(r) < 1 /\ \A q \in 0..m : lastcol(q) < 1 => q <= r)
            ELSE m + 1
      trail == [k \in 1..(m - sb + 1) |-> <<ss[sb - 1 + k], 0>>]
      core == Walk(m_, ss, st, sb - 1, n)
      whole == core \o trail
  IN IF swapped THEN [k \in 1..Len(whole) |-> <<whole[k][2], whole[k][1]>>] ELSE whole
SubAlign == SubAlignOf(sbt, ssrc, stgt, Len(tgt) > Len(src))

\* the machines run to completion as operators (used by the trace layer to compare tie-breaks: drift only)
RECURSIVE PlainLoop(_, _, _, _, _, _)
PlainLoop(s, t, c, k, r, b) == IF k > Len(s) THEN <<r, b>>
                               ELSE LET st == PlainFn(r, s[k], t, c)
                                    IN PlainLoop(s, t, c, k + 1, st[1], Append(b, st[2]))
PlainRun(s, t, c) == PlainLoop(s, t, c, 1, PlainInit(t, c)[1], PlainInit(t, c)[2])
\* (bound through a set so that TLC evaluates the backtrack matrix once, not once per use inside Walk)
TheOne(S) == CHOOSE x \in S : TRUE
MachineAl(s, t, c) == TheOne({Walk(m, s, t, Len(s), Len(t)) : m \in {PlainRun(s, t, c)[2]}})
RECURSIVE SubLoop(_, _, _, _, _)
SubLoop(s, t, k, r, b) == IF k > Len(s) THEN <<r, b>>
                          ELSE LET st == SubFn(r, s[k], t)
                               IN SubLoop(s, t, k + 1, st[1], Append(b, st[2]))
SubRun(s, t) == SubLoop(s, t, 1, SubInit(t)[1], SubInit(t)[2])
MachineSubAl(a, b) == LET ss == Longer(a, b)
                          st == Shorter(a, b)
                      IN TheOne({SubAlignOf(m, ss, st, Len(b) > Len(a)) : m \in {SubRun(ss, st)[2]}})

Backtrack == /\ phase = "scan" /\ i >= Len(src) /\ i >= Len(ssrc)
             /\ phase' = "done"
             /\ al' = Walk(bt, src, tgt, Len(src), N)
             /\ sal' = SubAlign
             /\ UNCHANGED <<src, tgt, cost, i, row, bt, ssrc, stgt, srow, sbt>>

Next == Step \/ Backtrack
Spec == Init /\ [][Next]_vars

\* ======================================== properties (C13) ==========================================
DistanceExact == i >= Len(src) => row[N] = Lev(src, tgt, cost)
DefinitionsAgree == LevDP(src, tgt, cost) = Lev(src, tgt, cost)
AlignExact == phase = "done" => GoodAlignment(al, src, tgt, cost)
\* substitutions + insertions + deletions = distance (unit costs: ErrorsSummary.from_lists)
StatsExact == (phase = "done" /\ cost = Unit) =>
                 LET st == EditStats(al) IN st[3] + st[4] + st[5] = Lev(src, tgt, Unit) /\ st[3] >= 0 /\ st[4] >= 0 /\ st[5] >= 0
SubstringExact == (cost = Unit /\ i >= Len(ssrc)) => srow[SN + 1] = LevSub(src, tgt)
SubAlignExact == (cost = Unit /\ phase = "done") => GoodSubAlignment(sal, src, tgt)
=============================================================================
