"""Thin wrapper around the pre-installed TLC (tla2tools.jar, TLC 1.8).

Every call copies the needed modules into a scratch directory outside /verif and /repo, writes a cfg with
literal constants, runs the jar with the serial collector (3-10x faster here than the `tlc` wrapper's
ParallelGC) under an outer timeout and parses the textual output.
"""
import json
import os
import re
import shutil
import subprocess
import tempfile
import time

JAR = "/opt/veriftools/tla/tla2tools.jar:/opt/veriftools/tla/CommunityModules-deps.jar"
SPEC_DIR = os.path.join(os.path.dirname(os.path.dirname(os.path.abspath(__file__))), "spec")


class TlcFailure(Exception):
    """machinery failure (timeout, parse error, semantic error in a module) -> exit code 2"""


def tla_value(v):
    """Python value -> TLA+ literal (ints, bools, strings, lists->tuples, sets, dicts->records)."""
    if isinstance(v, bool):
        return "TRUE" if v else "FALSE"
    if isinstance(v, int):
        return str(v)
    if isinstance(v, str):
        return '"' + v.replace("\\", "\\\\").replace('"', '\\"') + '"'
    if isinstance(v, (list, tuple)):
        return "<<" + ", ".join(tla_value(x) for x in v) + ">>"
    if isinstance(v, (set, frozenset)):
        return "{" + ", ".join(sorted(tla_value(x) for x in v)) + "}"
    if isinstance(v, dict):
        return "[" + ", ".join("%s |-> %s" % (k, tla_value(x)) for k, x in v.items()) + "]"
    raise TypeError(v)


def make_cfg(constants=None, init="Init", next_="Next", spec=None, invariants=(), properties=(),
             constraints=(), action_constraints=(), postcondition=None, deadlock=False, view=None, extra=""):
    lines = []
    if spec:
        lines.append("SPECIFICATION %s" % spec)
    else:
        lines.append("INIT %s" % init)
        lines.append("NEXT %s" % next_)
    if constants:
        lines.append("CONSTANTS")
        for k, v in constants.items():
            if isinstance(v, str) and v.startswith("<-"):
                lines.append("  %s %s" % (k, v))
            else:
                lines.append("  %s = %s" % (k, cfg_value(v)))
    for i in invariants:
        lines.append("INVARIANT %s" % i)
    for p in properties:
        lines.append("PROPERTY %s" % p)
    for c in constraints:
        lines.append("CONSTRAINT %s" % c)
    for c in action_constraints:
        lines.append("ACTION_CONSTRAINT %s" % c)
    if postcondition:
        lines.append("POSTCONDITION %s" % postcondition)
    if view:
        lines.append("VIEW %s" % view)
    lines.append("CHECK_DEADLOCK %s" % ("TRUE" if deadlock else "FALSE"))
    if extra:
        lines.append(extra)
    return "\n".join(lines) + "\n"


def cfg_value(v):
    # cfg syntax: sets with braces, no tuples/records/negatives -> those must come through an MC module
    if isinstance(v, bool):
        return "TRUE" if v else "FALSE"
    if isinstance(v, int):
        if v < 0:
            raise ValueError("cfg files reject negative literals; define the constant in an MC module")
        return str(v)
    if isinstance(v, str):
        return '"%s"' % v
    if isinstance(v, (set, frozenset, list, tuple)):
        return "{" + ", ".join(cfg_value(x) for x in (sorted(v, key=repr) if isinstance(v, (set, frozenset)) else v)) + "}"
    raise TypeError(v)


_RE_STATES = re.compile(r"(\d+) states generated, (\d+) distinct states found, (\d+) states left on queue")
_RE_DEPTH = re.compile(r"The depth of the complete state graph search is (\d+)")
_RE_INIT = re.compile(r"Finished computing initial states: (\d+) distinct state")
_RE_COV_ACTION = re.compile(r"^<(\w+) line (\d+), col \d+ to line \d+, col \d+ of module (\w+)>: (\d+):(\d+)", re.M)


def run_tlc(module, cfg_text, workdir, mode="check", workers=8, timeout=600, extra_modules=None, env=None,
            simulate=None, coverage=False, dump=None, jvm_mem="4g", files=None, depth=None, dfs_queue=False):
    """Run TLC on spec/<module>.tla with the given cfg text. Returns a dict.

    mode: "check" (BFS) or "simulate" (simulate = "num=..,file=.." option string).
    files: {name: text} extra files written into the workdir (e.g. generated MC modules, trace JSON).
    """
    os.makedirs(workdir, exist_ok=True)
    for f in os.listdir(SPEC_DIR):
        if f.endswith(".tla"):
            shutil.copy(os.path.join(SPEC_DIR, f), os.path.join(workdir, f))
    for name, text in (files or {}).items():
        with open(os.path.join(workdir, name), "w") as fh:
            fh.write(text)
    cfg_path = os.path.join(workdir, module + "__run.cfg")
    with open(cfg_path, "w") as fh:
        fh.write(cfg_text)
    meta = tempfile.mkdtemp(prefix="meta_", dir=workdir)
    cmd = ["java", "-XX:+UseSerialGC", "-Xmx" + jvm_mem, "-Xss64m"]
    if dfs_queue:
        cmd.append("-Dtlc2.tool.queue.IStateQueue=StateDeque")
    cmd += ["-cp", JAR, "tlc2.TLC", "-config", cfg_path, "-metadir", meta, "-noGenerateSpecTE",
            "-workers", str(workers)]
    if mode == "simulate":
        cmd += ["-simulate", simulate or "num=1000"]
        if depth:
            cmd += ["-depth", str(depth)]
    if coverage:
        cmd += ["-coverage", "1"]
    if dump:
        cmd += ["-dump", "dot,actionlabels", dump]
    cmd.append(module + ".tla")
    e = dict(os.environ)
    e.pop("JAVA_TOOL_OPTIONS", None)
    if env:
        e.update(env)
    t0 = time.time()
    try:
        p = subprocess.run(cmd, cwd=workdir, env=e, stdout=subprocess.PIPE, stderr=subprocess.STDOUT,
                           timeout=timeout, text=True, errors="replace")
    except subprocess.TimeoutExpired as ex:
        raise TlcFailure("TLC timeout after %ss on %s" % (timeout, module)) from ex
    finally:
        shutil.rmtree(meta, ignore_errors=True)
    out = p.stdout
    res = {"module": module, "wall": time.time() - t0, "rc": p.returncode, "out": out,
           "generated": 0, "distinct": 0, "depth": 0, "init": 0,
           "violated": None, "error": None, "printed": []}
    m = None
    for m in _RE_STATES.finditer(out):
        pass
    if m:
        res["generated"], res["distinct"] = int(m.group(1)), int(m.group(2))
    m = _RE_DEPTH.search(out)
    if m:
        res["depth"] = int(m.group(1))
    m = _RE_INIT.search(out)
    if m:
        res["init"] = int(m.group(1))
    m = re.search(r"Error: Invariant (\w+) is violated", out)
    if m:
        res["violated"] = m.group(1)
    # (an action property that is a conjunct of a quantified formula is reported by position: "Action property line 19, col 21 to ...")
    m = re.search(r"Error: Action property (?:(\w+)|line [^\n]*?) is violated|Error: Temporal properties were violated", out)
    if m and not res["violated"]:
        res["violated"] = m.group(1) or "temporal"
    if "Error: Deadlock reached" in out and not res["violated"]:
        res["violated"] = "Deadlock"
    if "Postcondition" in out and "violated" in out and not res["violated"]:
        if re.search(r"Postcondition .* violated|The postcondition .* violated|postcondition.*false", out, re.I):
            res["violated"] = "Postcondition"
    if res["violated"] is None and p.returncode != 0:
        # any other non-zero exit: parse/semantic/evaluation error => machinery failure
        m = re.search(r"(Error: .*(?:\n.*){0,12})", out)
        res["error"] = m.group(1) if m else out[-2000:]
    if coverage:
        cov = {}
        for m in _RE_COV_ACTION.finditer(out):
            cov[m.group(1)] = cov.get(m.group(1), 0) + int(m.group(5))
        res["coverage"] = cov
    res["printed"] = parse_printed(out)
    return res


def parse_printed(out):
    """Values printed by PrintT(...) that look like <<"tag", ...>> (bracket matched; TLC's pretty printer may
    spread long values over several lines and pad brackets with blanks: white space is normalised)."""
    vals = []
    for m in re.finditer(r'<<\s*"', out):
        j = m.start()
        depth = 0
        k = j
        while k < len(out):
            if out.startswith("<<", k):
                depth += 1
                k += 2
                continue
            if out.startswith(">>", k):
                depth -= 1
                k += 2
                if depth == 0:
                    break
                continue
            k += 1
        v = re.sub(r"\s+", " ", out[j:k])
        v = v.replace("<< ", "<<").replace(" >>", ">>").replace("{ ", "{").replace(" }", "}")
        vals.append(v)
    return vals


def parse_tla_set_of_ints(text):
    """'{1, 5, 7}' or '1..3' or '{}' -> python list (used for rejected-tid sets printed by trace specs)."""
    text = text.strip()
    m = re.fullmatch(r"(\d+)\.\.(\d+)", text)
    if m:
        return list(range(int(m.group(1)), int(m.group(2)) + 1))
    if text in ("{}", ""):
        return []
    return [int(x) for x in re.findall(r"-?\d+", text)]


def counterexample(out, maxlen=6000):
    i = out.find("Error:")
    return out[i:i + maxlen] if i >= 0 else ""


def sany(path):
    p = subprocess.run(["java", "-cp", JAR, "tla2sany.SANY", os.path.basename(path)], cwd=os.path.dirname(path),
                       stdout=subprocess.PIPE, stderr=subprocess.STDOUT, text=True)
    ok = p.returncode == 0 and "Semantic errors" not in p.stdout and "Parse Error" not in p.stdout \
        and "Could not parse" not in p.stdout and "Fatal errors" not in p.stdout
    return ok, p.stdout
