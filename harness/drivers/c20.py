"""C20 - cached transformer decoding equals recomputation, per line and per batch (DESIGN.md section 4, C20).

1. TLC model-checks spec/TransformerCache.tla (provenance tags in the self-attention / cross-attention caches and memory_tgt of a
   decoder layer that persist between transcribe_batch calls; the greedy loop with alive mask, cap and postprocess): over every
   history of <= MaxBatches calls with every batch size / encoder length / is_cached value and every symbol sequence the
   network may emit: no stale or garbage cell is ever read, no shape clash, each line's transcription is a function of its own
   symbols, contains no boundary/ignore symbol, every call returns (liveness under weak fairness).  The four defective variants
   of Appendix B must each violate an invariant.
2. The same histories (one Python dict of bounds) are replayed on random-weight TransformerOCR models (stub front-end, engine
   object built with __new__ so that the real transcribe_batch loop runs); per call the logits are compared with uncached
   decoding on a pristine copy, with the teacher-forced masked forward pass and with every line decoded alone; the recorded
   history (symbols, iterations, cache re-allocations and batch dimensions per iteration, differences in 1e-7 units) is validated
   by TLC against TransformerCache_Trace: Strict (behaviour of the protocol model) first, then property-level.
   The float equalities themselves are a tolerance comparison (exploration level); the protocol is model-checked.
"""
import itertools

from .. import tc_common as C
from ..core import pmap

LEVEL = "model_checking"
TOL = 20000        # 2e-3 in units of 1e-7: > 1000 x the largest deviation measured on the current tree (1.4e-6)
MARG = 200000      # transcriptions of two runs are compared only when every top-2 margin exceeds 2e-2
INVS = ["NoStaleRead", "NoShapeError", "LineIndependent", "CleanTranscript", "StepBound"]


def bounds(tier):
    if tier == "quick":
        return [
            {"name": "A", "sizes": [1, 2], "enclens": [1, 2], "modes": [1, 0], "maxbatches": 3, "syms": ["b", "i", "c"],
             "shapes": ["d16h2l2"], "biases": [0, 1, 2, 3, 4], "per_history": 1},
            {"name": "B", "sizes": [1, 3], "enclens": [2, 3], "modes": [1], "maxbatches": 2, "syms": ["b", "c"],
             "shapes": ["d16h2l2", "d24h3l1", "d32h4l3"], "biases": [0, 1, 2, 3, 4], "per_history": 15},
        ]
    return [
        {"name": "A", "sizes": [1, 2], "enclens": [1, 2], "modes": [1, 0], "maxbatches": 3, "syms": ["b", "i", "c"],
         "shapes": ["d16h2l2", "d24h3l1", "d32h4l3"], "biases": [0, 1, 2, 3, 4], "per_history": 4},
        {"name": "A4", "sizes": [1, 2], "enclens": [1, 2], "modes": [1, 0], "maxbatches": 4, "syms": ["b", "c"],
         "shapes": ["d16h2l2", "d24h3l1"], "biases": [0, 1, 2, 3, 4], "per_history": 1},
        {"name": "B", "sizes": [1, 2, 3], "enclens": [2, 3], "modes": [1], "maxbatches": 3, "syms": ["b", "c"],
         "shapes": ["d16h2l2", "d24h3l1", "d32h4l3"], "biases": [0, 1, 2, 3, 4], "per_history": 5},
    ]


# long lines: more than 500 encoder frames on a model configured for 512 positions (the protocol model is not run for this
# shape - every symbol sequence of 500 steps is out of reach; the recorded histories are validated against it all the same)
LONG = {"name": "L", "sizes": [1, 2], "enclens": [505], "modes": [1], "maxbatches": 2, "syms": ["b", "c"],
        "shapes": ["d8h1l1long"], "biases": [4, 1], "per_history": 1, "design": False}


# wide batches: 256 lines decoded together (a per-line flag kept in 8 bits wraps at 256); trace validation only - the
# protocol model would have to enumerate 3^256 symbol columns per step
WIDE = {"name": "W", "sizes": [256], "enclens": [2], "modes": [1], "maxbatches": 1, "syms": ["b", "c"],
        "shapes": ["d16h2l2"], "biases": [1, 3], "per_history": 2, "design": False, "strict": False}


# degraded but legal line images (round 9): (almost) black crops - uint8 values 0 / 1, not all zero - decoded alone (n = 1, kind 1), with
# other dark crops (n = 2, kind 1) and next to ordinary crops (n = 2, kind 2), before / after ordinary batches (kind 0) on the same
# engine; thorough adds constant lines (kind 3), uncached calls and the second encoder length.  Sizes / EncLens are a subset of
# bounds A: the protocol is the one TLC explored for A, and the histories are validated together with A's (same constants).
def dark(tier):
    if tier == "quick":
        return {"name": "D", "sizes": [1, 2], "enclens": [2], "modes": [1], "kinds": [0, 1, 2], "maxbatches": 2,
                "shapes": ["d16h2l2", "d24h3l1", "d32h4l3"], "biases": [0, 1, 2, 3, 4], "per_history": 2}
    return {"name": "D", "sizes": [1, 2], "enclens": [1, 2], "modes": [1, 0], "kinds": [0, 1, 2, 3], "maxbatches": 2,
            "shapes": ["d16h2l2", "d24h3l1", "d32h4l3"], "biases": [0, 1, 2, 3, 4], "per_history": 1}


def constants(b, variant="ok", **over):
    c = {"Sizes": set(b["sizes"]), "EncLens": set(b["enclens"]), "Syms": set(b["syms"]), "Modes": {bool(m) for m in b["modes"]},
         "MaxBatches": b["maxbatches"], "Variant": variant}
    c.update(over)
    return c


def trace_constants(b, strict):
    return constants(dict(b, syms=["b", "i", "c"]), Strict=strict, Tol=TOL, Marg=MARG)


def histories(b):
    opts = list(itertools.product(b["sizes"], b["enclens"], b["modes"]))
    if "kinds" in b:       # image kinds (tc_common.images); a mixed batch needs two lines; all-ordinary histories are those of A
        opts = [o + (k,) for o in opts for k in b["kinds"] if not (k == 2 and o[0] < 2)]
    out = []
    for n in range(1, b["maxbatches"] + 1):
        out += [list(map(list, h)) for h in itertools.product(opts, repeat=n)]
    if "kinds" in b:
        out = [h for h in out if any(e[3] for e in h)]
    return out


def cases_of(ctx, b):
    combos = list(itertools.product(b["shapes"], b["biases"]))
    cases = []
    for hi, h in enumerate(histories(b)):
        for j in range(b["per_history"]):
            shape, bias = combos[(hi + j * 7 + ctx.seed) % len(combos)] if b["per_history"] < len(combos) else combos[j % len(combos)]
            cases.append({"shape": shape, "bias": bias, "seed": ctx.seed + (hi * 31 + j) % 5, "batches": h, "bounds": b["name"]})
    return cases


KINDS = ["", ", (almost) black lines: uint8 values 0/1", ", black and ordinary lines mixed", ", constant lines"]


def _describe(tr, k):
    if k >= len(tr["batches"]):
        return "protocol", "history not completed"
    b = tr["batches"][k]
    if b["outcome"] != "ok":
        return "outcome", "call %d (n=%d, e=%d, cached=%d) ended with %s" % (k + 1, b["n"], b["e"], b["cached"], b["outcome"])
    worst = max(("d_unc", b["d_unc"]), ("d_tf", b["d_tf"]), ("d_alone", b["d_alone"]), key=lambda x: x[1])
    if worst[1] > TOL:
        return "numeric", ("call %d (n=%d, e=%d, cached=%d%s): logits differ from the reference by %.3g (%s; uncached %.3g, teacher-forced "
                           "%.3g, alone %.3g)" % (k + 1, b["n"], b["e"], b["cached"], KINDS[b.get("kind", 0)], worst[1] * C.UNIT, worst[0],
                                                  b["d_unc"] * C.UNIT, b["d_tf"] * C.UNIT, b["d_alone"] * C.UNIT))
    if b["margin"] > MARG and not (b["eq_unc"] and b["eq_alone"]):
        return "transcription", ("call %d (n=%d, e=%d, cached=%d): transcription differs from %s although every margin exceeds %.0e" % (
            k + 1, b["n"], b["e"], b["cached"], "uncached decoding" if not b["eq_unc"] else "the line decoded alone", MARG * C.UNIT))
    if b.get("d_late", 0) > TOL or not b.get("eq_late", 1):
        return "kept-result", ("call %d (n=%d, e=%d, cached=%d): the scores / transcriptions this call handed back, looked at again after "
                               "the %d call(s) that followed on the same engine, differ from its recomputation / teacher-forced pass by "
                               "%.3g (transcriptions and shape unchanged: %d) - right after the call they agreed" % (
                                   k + 1, b["n"], b["e"], b["cached"], len(tr["batches"]) - k - 1, b["d_late"] * C.UNIT, b["eq_late"]))
    return "transcript-shape", "call %d (n=%d, e=%d, cached=%d): returned transcription %s is not the line's own symbols %s without boundary/ignore" % (
        k + 1, b["n"], b["e"], b["cached"], b["res"], b["syms"])


def judge(ctx, b, cases, traces):
    strict = trace_constants(b, True)
    loose = trace_constants(b, False)
    if b.get("strict", True):
        acc, rej = ctx.validate("TransformerCache_Trace", traces, constants=strict, label="TransformerCache_Trace %s strict" % b["name"])
    else:       # wide batches: the protocol-level (strict) pass would branch over 256 lines; they are judged at the property level only
        acc, rej = 0, [(i, 0) for i in range(len(traces))]
    rejected = {r[0] for r in rej}
    for c, tr in zip(cases, traces):
        ctx.count(1, (b["name"], c["shape"], c["bias"], c["seed"], str(c["batches"])) if len(tr["batches"]) >= 2 else None)
    good = [i for i in range(len(traces)) if i not in rejected and len(traces[i]["batches"]) >= 2]
    if good:
        ctx.sample({"bounds": b["name"], "case": cases[good[len(good) // 2]], "trace": traces[good[len(good) // 2]]}, limit=3)
    if good and "selftest_corrupted_trace_rejected" not in ctx.notes:
        def corrupt(tr):
            tr["batches"][-1]["d_tf"] += 1000000      # the last call now deviates by 0.1 from the teacher-forced pass
            return tr
        ctx.selftest_corrupt("TransformerCache_Trace", traces[good[len(good) // 2]], corrupt, constants=loose)
    low = sum(1 for tr in traces for bb in tr["batches"] if bb["margin"] <= MARG)
    ctx.notes["calls_with_margin_below_threshold_(transcriptions_not_compared)"] = ctx.notes.get(
        "calls_with_margin_below_threshold_(transcriptions_not_compared)", 0) + low
    ctx.notes["max_logit_deviation_seen"] = max(ctx.notes.get("max_logit_deviation_seen", 0.0), max(
        [max(bb["d_unc"], bb["d_tf"], bb["d_alone"]) * C.UNIT for tr in traces for bb in tr["batches"] if bb["outcome"] == "ok"
         and max(bb["d_unc"], bb["d_tf"], bb["d_alone"]) < C.BIG] + [0.0]))
    if rej:
        idx = [r[0] for r in rej]
        acc2, rej2 = ctx.validate("TransformerCache_Trace", [traces[i] for i in idx], constants=loose,
                                  label="TransformerCache_Trace %s property-level" % b["name"])
        bad = {r[0]: r[1] for r in rej2}
        for k, i in enumerate(idx):
            if k in bad:
                kind, what = _describe(traces[i], bad[k])
                first = traces[i]["batches"][min(bad[k], len(traces[i]["batches"]) - 1)]
                sig = "%s:%s" % ("cached" if first["cached"] else "uncached", kind)
                ctx.violation({"bounds": b, "case": cases[i], "trace": traces[i], "progress": bad[k]}, sig,
                              "%s; model %s bias %s seed %d history %s" % (what, cases[i]["shape"], C.BIASES[cases[i]["bias"]],
                                                                          cases[i]["seed"], cases[i]["batches"]))
            elif b.get("strict", True):
                ctx.model_drift("%s: history is not a behaviour of the protocol model (iterations / cache re-allocation / batch dimension) "
                                "but every property-level clause holds" % b["name"], 1, cases[i])


def design(ctx, b):
    ctx.tlc("TransformerCache", constants=constants(b), invariants=INVS, properties=["Terminates"], spec="Spec", workers=8,
            timeout=3000, label="TransformerCache %s" % b["name"])


def sharpness(ctx):
    small = {"sizes": [1, 2], "enclens": [1, 2], "modes": [1, 0], "maxbatches": 3, "syms": ["b", "c"]}
    for variant, inv in [("no_realloc", "NoStaleRead"), ("keep_memory", "NoShapeError"), ("write_at_seq_len", "NoStaleRead"),
                         ("stop_any", "LineIndependent")]:
        ctx.tlc("TransformerCache", constants=constants(small, variant=variant), invariants=INVS, workers=4, timeout=900,
                expect_violation=inv, label="TransformerCache variant %s" % variant, coverage=False)


def run(ctx):
    ctx.rule = ("every history of <= MaxBatches transcribe_batch calls (batch size x encoder length x is_cached) on one model object, "
                "replayed on random-weight TransformerOCR models (shapes x output-bias settings so that lines finish at different "
                "steps, emit ignore symbols or hit the cap); plus histories with (almost) black / mixed / constant line images; the "
                "objects every call returned are looked at again after the whole history; non-trivial = history of at least two calls")
    ctx.exhaustive = True
    ctx.assume("stub convolutional front-end (8x4 kernel, stride 8x4) instead of the VGG front-end whose weights cannot be downloaded",
               "random weights, CPU float32; logits compared with tolerance %.0e (largest deviation measured: 1.4e-6); transcriptions of "
               "two runs compared only when every top-2 margin exceeds %.0e" % (TOL * C.UNIT, MARG * C.UNIT),
               "length cap + 1 < max_seq_len of the model (otherwise the code raises SequenceTooLongException by design)",
               "transcribe_batch is called directly (run_ocr pads every batch to 1088 px, which would only change the encoder length)")
    sharpness(ctx)
    for b in bounds(ctx.tier) + [LONG, WIDE]:
        if b.get("design", True):
            design(ctx, b)
        cases = cases_of(ctx, b)
        if b["name"] == "A":         # the degraded-image histories ride on A's constants and trace-validation run
            cases = cases + cases_of(ctx, dark(ctx.tier))
        traces = pmap(C.run_history, cases, procs=6)
        judge(ctx, b, cases, traces)
    ctx.notes["explanation"] = ("LEVEL model_checking refers to the protocol (cache cells, loop, termination incl. liveness) checked "
                                "exhaustively by TLC and bound to the code by strict trace validation of every replayed history "
                                "(iterations, stop rule, cache re-allocations and batch dimensions observed on the live model object); "
                                "the float equalities cached = uncached = teacher-forced = alone are exploration-level: tolerance "
                                "comparisons on random-weight models, recorded in the trace and judged by the trace specification")


def replay(ctx, case):
    tr = C.run_history(case["case"])
    judge(ctx, case["bounds"], [case["case"]], [tr])
