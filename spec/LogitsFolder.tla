---------------------------- MODULE LogitsFolder ----------------------------
(* Folder level of C09 ("a layout rebuilt from the saved PAGE XML plus logits re-decodes to the same transcriptions and exports
   the same ALTO text"): user_scripts/parse_folder.py stores one .xml and one .logits file per page id in the output folders
   (Computator.__call__) and a later run rebuilds each page from <input xml folder>/<id>.xml + <input logits folder>/<id>.logits.
   A page id is a sequence of name tokens ("x" = a run of letters/digits, "." = a dot); the files of the folders are keyed by the
   file name the tool derives from the id.  Naming = "append" (<id> + extension, what the code does) is injective, hence every page
   gets back its own artefacts whatever else was stored; Naming = "suffix" (replace everything after the last dot - what
   pathlib's with_suffix does) maps x.x and x.y onto one file: the self-test variant must violate OwnArtefacts.

   Contents are provenance tags: the page whose run wrote the file.                                                         *)
EXTENDS Naturals, Sequences, FiniteSets, TLC
CONSTANTS MaxLen,     \* page ids: non-empty token sequences up to this length that do not start or end with a dot
          Naming,     \* "append" | "suffix"
          MaxOps

Toks == {"x", "y", "."}
Ids == {s \in UNION {[1..n -> Toks] : n \in 1..MaxLen} : s[1] # "." /\ s[Len(s)] # "." }

RECURSIVE LastDot(_, _)
LastDot(s, i) == IF i = 0 THEN 0 ELSE IF s[i] = "." THEN i ELSE LastDot(s, i - 1)
Stem(s) == IF LastDot(s, Len(s)) <= 1 THEN s ELSE SubSeq(s, 1, LastDot(s, Len(s)) - 1)
FileOf(id, ext) == IF Naming = "append" THEN id \o <<ext>> ELSE Stem(id) \o <<ext>>

VARIABLES xml, logits,      \* folders: file name |-> tag (the page id whose run wrote the file)
          got,              \* what the last rebuild saw: <<page id, xml tag, logits tag>> or <<>>
          nops
vars == <<xml, logits, got, nops>>
None == <<>>

Init == xml = <<>> /\ logits = <<>> /\ got = None /\ nops = 0

Put(f, k, v) == [x \in DOMAIN f \cup {k} |-> IF x = k THEN v ELSE f[x]]
\* first run: the page is recognised and its PAGE XML + logits are written
Store(p) == /\ nops < MaxOps
            /\ xml' = Put(xml, p \o <<".xml">>, p)                 \* PAGE XML names are <id>.xml in every variant
            /\ logits' = Put(logits, FileOf(p, ".logits"), p)
            /\ got' = None /\ nops' = nops + 1
\* later run: the page is rebuilt from the two folders
Rebuild(p) == /\ nops < MaxOps
              /\ p \o <<".xml">> \in DOMAIN xml /\ FileOf(p, ".logits") \in DOMAIN logits
              /\ got' = <<p, xml[p \o <<".xml">>], logits[FileOf(p, ".logits")]>>
              /\ nops' = nops + 1 /\ UNCHANGED <<xml, logits>>
Next == \E p \in Ids : Store(p) \/ Rebuild(p)
Spec == Init /\ [][Next]_vars

\* C09, folder level: a rebuilt page is made of its own PAGE XML and its own logits
OwnArtefacts == got # None => (got[2] = got[1] /\ got[3] = got[1])
\* every stored page can be rebuilt: one logits file per stored page
OneFilePerPage == Cardinality(DOMAIN logits) = Cardinality(DOMAIN xml)
=============================================================================
