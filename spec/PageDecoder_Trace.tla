------------------------- MODULE PageDecoder_Trace -------------------------
(* Trace layer for PageDecoder (C08).  One trace = one history of process_page() calls on long-lived real PageDecoder
   instances (one per worker), for one page content/configuration (cfgid).  Per call the harness recorded
     page, worker,
     decodes   : for every call of the prefix decoder, the line and the tags of the LM state it was started from,
     res       : the transcriptions of the page's lines after the call,
     alone     : the transcriptions the same page gets from a fresh instance,
     last_line : tag of the text held in last_line afterwards, has_h / last_h: the LM state held afterwards,
     env       : where the call was executed - "main" (the thread that built the decoder), "thread" (a worker thread of the same
                 process), "grad-on" (the building thread after other code re-enabled torch's autograd, the torch default).
                 PageDecoder has no variable for it: the result depends on the page and the configuration only, so the
                 property-level clause is THE SAME for every environment.

   Detailed = FALSE: PROPERTY-LEVEL acceptance (the verdict): every call yields exactly the result the page has alone
     (hence also: the same page twice gives identical output).
   Detailed = TRUE: design conformance: the recorded contexts and the state left behind follow PageDecoder step by step
     (drift detection; with Legacy = TRUE: the model of the unrepaired tree).                                         *)
EXTENDS PageDecoder, TraceKit
CONSTANT Detailed
VARIABLES tid, i, d
Tr == Traces[tid]
NCalls == Len(Tr.calls)
Call == Tr.calls[i]

TInit == /\ tid \in 1..NTraces
         /\ Init /\ cfgid = Traces[tid].cfgid
         /\ i = 1 /\ d = 0

Envs == {"main", "thread", "grad-on"}
PNext == /\ i <= NCalls
         /\ Call.env \in Envs                    \* whichever of them
         /\ Call.outcome = "ok"
         /\ Call.res = Call.alone
         /\ i' = i + 1 /\ UNCHANGED <<vars, tid, d>>

DNext == \/ /\ i <= NCalls /\ Call.outcome = "ok" /\ PageStart(Call.worker, Call.page)
            /\ d' = 0 /\ UNCHANGED <<tid, i>>
         \/ /\ LineConfident /\ UNCHANGED <<tid, i, d>>
         \/ /\ LineConfidentNoText /\ UNCHANGED <<tid, i, d>>
         \/ /\ LineFail
            /\ IF Broken(cur, pos) /\ ~ThresholdSet(cfgid)          \* the decoder WAS called for a broken line (and raised)
               THEN /\ d < Len(Call.decodes)
                    /\ Call.decodes[d + 1].line = pos
                    /\ Call.decodes[d + 1].from = StartCtx(CarryOf(cfgid), lastH[cw], lastLine[cw])
                    /\ d' = d + 1
               ELSE d' = d
            /\ UNCHANGED <<tid, i>>
         \/ /\ LineDecode /\ d < Len(Call.decodes)
            /\ Call.decodes[d + 1].line = pos
            /\ Call.decodes[d + 1].from = log'[Len(log')].from
            /\ d' = d + 1 /\ UNCHANGED <<tid, i>>
         \/ /\ PageEnd /\ d = Len(Call.decodes)
            /\ lastLine[cw] = Call.last_line
            /\ lastH[cw].has = Call.has_h
            /\ Call.has_h => lastH[cw].c = Call.last_h
            /\ i' = i + 1 /\ UNCHANGED <<tid, d>>

TNext == IF Detailed THEN DNext ELSE PNext

TAccept == TKMark(tid, 100 * i + d, i = NCalls + 1 /\ cur = "-")
TPost == TKPost
ASSUME TKReset
=============================================================================
