#!/bin/bash
# Offline setup: nothing is built; every TLA+ module is syntax-checked with SANY so that a broken
# specification is reported here and not as a property verdict.
cd "$(dirname "$0")"
mkdir -p evidence out
rc=0
for f in spec/*.tla; do
  out=$(cd spec && java -cp /opt/veriftools/tla/tla2tools.jar:/opt/veriftools/tla/CommunityModules-deps.jar tla2sany.SANY "$(basename "$f")" 2>&1)
  if echo "$out" | grep -q -i "parse error\|semantic error\|fatal error\|could not\|\*\*\* Errors"; then echo "SANY FAILED: $f"; echo "$out" | tail -20; rc=1; fi
done
/venv/bin/python -c "import pero_ocr, numpy, torch" || rc=1
exit $rc
