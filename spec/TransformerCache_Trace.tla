----------------------- MODULE TransformerCache_Trace -----------------------
(* Trace layer for TransformerCache (C20).  A recorded execution is a history of real
   TransformerEngineLineOCR.transcribe_batch calls on ONE random-weight TransformerOCR object (stub front-end), per call:
     n, e, cached, outcome, S      lines, encoder length (= cap), is_cached, "ok" or the exception, loop iterations
     syms[l][s]                    class of the arg-max symbol of line l at iteration s ("b" boundary, "i" ignore, "c")
     res[l]                        classes of the symbols of the returned transcription
     obs[s] = <<sr, sb, cr, cb, mr, mb>>   after iteration s: was the self-attention cache / cross-attention cache /
                                   memory_tgt re-allocated in this iteration (0/1) and its batch dimension (0 = None)
     d_unc, d_tf, d_alone          max |logit difference| in units of 1e-7 between this call and (a) uncached decoding on a
                                   pristine copy of the model, (b) the teacher-forced masked forward pass over the emitted
                                   symbols, (c) every line decoded alone on a pristine copy
     margin, eq_unc, eq_alone      smallest top-2 margin (1e-7 units) over all runs compared; transcriptions equal (0/1)
     kind                          what the line images of the call were (0 ordinary, 1 all (almost) black: uint8 values 0/1,
                                   2 black and ordinary lines mixed, 3 constant lines); informative - the clauses below hold for
                                   every kind, the references are always computed on image / 255 and on each line alone
     d_late, eq_late               taken only AFTER the whole history has been decoded on the engine object, on the very objects
                                   the call handed back (kept by the caller, not copied): max |difference| (1e-7 units) between the
                                   kept per-step scores and the recomputation / teacher-forced pass obtained right after the call;
                                   kept transcriptions and shape still those seen right after the call (0/1)
   Strict = FALSE: property-level acceptance, a predicate per call (terminated, clean transcription, own symbols only,
   numeric equalities within Tol, transcriptions equal when the margin exceeds Marg).
   Strict = TRUE: additionally the whole history must be a behaviour of TransformerCache (loop iterations, stop rule, cap,
   cache re-allocation and batch dimensions as observed); accepted only with Strict = FALSE => MODEL-DRIFT.          *)
EXTENDS TransformerCache, TraceKit
CONSTANTS Strict, Tol, Marg
VARIABLES tid, k

Tr == Traces[tid]
NB == Len(Tr.batches)

\* ---- property-level predicate of one call ------------------------------------------------------------------
FirstB(sq) == IF \E j \in 1..Len(sq) : sq[j] = "b" THEN CHOOSE j \in 1..Len(sq) : sq[j] = "b" /\ \A i \in 1..(j - 1) : sq[i] # "b"
              ELSE 0
Prefix(sq, m) == SubSeq(sq, 1, m)
OwnOK(b, l) == LET sq == b.syms[l]
                   fb == FirstB(sq)
               IN /\ Len(sq) = b.S
                  /\ \A j \in 1..Len(b.res[l]) : b.res[l][j] = "c"                  \* no boundary / ignore symbol
                  /\ IF fb > 0 THEN b.res[l] = Post(Prefix(sq, fb - 1))             \* cut at its own first boundary symbol
                     ELSE \E m \in 0..b.S : b.res[l] = Post(Prefix(sq, m))         \* or capped: some prefix of its own symbols
NumOK(b) == /\ b.d_unc <= Tol /\ b.d_tf <= Tol /\ b.d_alone <= Tol
            /\ b.margin > Marg => (b.eq_unc = 1 /\ b.eq_alone = 1)
\* the result of a call stays the result of that call whatever the same engine decodes afterwards (a returned tensor
\* must not alias a buffer that the next batch re-uses): the scores the caller kept still equal the recomputation
StaysOK(b) == b.d_late <= Tol /\ b.eq_late = 1
BatchOK(b) == /\ b.outcome = "ok" /\ b.S >= 1
              /\ Len(b.syms) = b.n /\ Len(b.res) = b.n
              /\ \A l \in 1..b.n : OwnOK(b, l)
              /\ NumOK(b)
              /\ StaysOK(b)
GoodPrefix == CHOOSE m \in 0..NB : (\A j \in 1..m : BatchOK(Tr.batches[j])) /\ (m < NB => ~BatchOK(Tr.batches[m + 1]))

TInit == /\ tid \in 1..NTraces
         /\ Init
         /\ k = IF Strict THEN 0 ELSE GoodPrefix

Cur == Tr.batches[batch]
TStart == /\ batch < NB
          /\ LET b == Tr.batches[batch + 1]
             IN b.n \in Sizes /\ b.e \in EncLens /\ StartBatch(b.n, b.e, b.cached = 1)
          /\ k' = k
TStep == /\ phase = "run" /\ step < Cur.S /\ Cur.outcome = "ok" /\ Len(Cur.syms) = size
         /\ \A l \in 1..size : Len(Cur.syms[l]) = Cur.S
         /\ StepWith([l \in 1..size |-> Cur.syms[l][step + 1]])
         /\ LET o == Cur.obs[step + 1]
            IN /\ Cur.layers_agree = 1
               /\ realloc' = <<o[1] = 1, o[3] = 1, o[5] = 1>>
               /\ o[2] = selfc'.bsz /\ o[4] = crossc'.bsz /\ o[6] = mem'.bsz
         /\ k' = k
TFinish == /\ phase = "post" /\ step = Cur.S
           /\ Finish
           /\ result' = Cur.res
           /\ BatchOK(Cur)
           /\ k' = k + 1

TNext == /\ Strict
         /\ UNCHANGED tid
         /\ (TStart \/ TStep \/ TFinish)
TAccept == TKMark(tid, k, k = NB /\ phase = "idle")
TPost == TKPost
ASSUME TKReset
=============================================================================
