---------------------------- MODULE PageDecoder ----------------------------
(* C08 - a page's result does not depend on processing history or schedule.

   PageDecoder (pero_ocr/document_ocr/page_parser.py:96-145) is a long-lived object: it keeps the LM state reached at
   the end of the previous line (last_h) and the previous transcription (last_line) and, with CARRY_H_OVER, starts the
   LM of the next line from last_h or - when no state is held - re-primes it from last_line.
   One action per step of the real code:
     PageStart(w, p) : process_page() of the instance owned by worker w begins             page_parser.py:108-109
     LineConfident   : decode_line() takes the confident-line shortcut                      page_parser.py:122-126
     LineDecode      : decode_line() calls the prefix decoder                               page_parser.py:128-145
     LineFail        : decode_line() raises (no logits); process_page logs and goes on      page_parser.py:111-114
     PageEnd
   An LM context is the SEQUENCE of <<page, line>> tags of the lines whose text the LM state has consumed; last_line is
   the tag of the line whose text it holds.  The text of a decoded line is taken to be an arbitrary function of the line
   and of the context it was decoded from, so "same result" is "same context".
   The page content is part of the initial state: cfgid encodes CARRY_H_OVER and, per line, whether it is decoded (0),
   confident under the threshold (1), has no logits (2, only when NK >= 3) or is confident under the threshold but came without a
   transcription (3, only when NK = 4: e.g. a page rebuilt from a logits file alone - the confident-line shortcut keeps "no text").
   Workers: every worker of parse_folder's Pool owns a forked copy of the parser, i.e. its own (last_h, last_line);
   pages are dispatched to workers arbitrarily.  Workers = {1} is the sequential tool.

   The module describes the REPAIRED code (last_line reset at page start); Legacy = TRUE keeps last_line across pages
   as the unrepaired tree does, and TLC then violates HistoryIndependent / Isolation.                               *)
EXTENDS Naturals, Sequences, FiniteSets, TLC

CONSTANTS Pages,        \* subset of {"A", "B", "C"}
          NLines,       \* lines per page
          NK,           \* number of line kinds in use (2, 3 or 4)
          Workers,      \* set of worker ids
          MaxCalls, Legacy

PageNo(p) == CASE p = "A" -> 0 [] p = "B" -> 1 [] p = "C" -> 2
RECURSIVE Pow(_, _)
Pow(b, e) == IF e = 0 THEN 1 ELSE b * Pow(b, e - 1)
NLinesTotal == Cardinality(Pages) * NLines
NConfigs == 2 * Pow(NK, NLinesTotal)
CarryOf(c) == c % 2 = 1
KindOf(c, p, l) == ((c \div 2) \div Pow(NK, PageNo(p) * NLines + (l - 1))) % NK      \* 0 decode, 1 confident, 2 no logits, 3 confident without text

ASSUME /\ Pages \subseteq {"A", "B", "C"} /\ {PageNo(p) : p \in Pages} = 0..(Cardinality(Pages) - 1)
       /\ NK \in {2, 3, 4} /\ NLines \in Nat \ {0} /\ MaxCalls \in Nat /\ Workers # {}

NoH == [has |-> FALSE, c |-> <<>>]
NoLine == <<>>

VARIABLES cfgid, lastH, lastLine, cur, cw, pos, calls, log
vars == <<cfgid, lastH, lastLine, cur, cw, pos, calls, log>>
\* log: one entry per prefix-decoder call - [call, page, line, from] (ghost; what C08 is about)

Init == /\ cfgid \in 0..(NConfigs - 1)
        /\ lastH = [w \in Workers |-> NoH] /\ lastLine = [w \in Workers |-> NoLine]
        /\ cur = "-" /\ cw = (CHOOSE w \in Workers : TRUE) /\ pos = 0 /\ calls = 0 /\ log = <<>>

PageStart(w, p) == /\ cur = "-" /\ calls < MaxCalls
                   /\ cur' = p /\ cw' = w /\ pos' = 1 /\ calls' = calls + 1
                   /\ lastH' = [lastH EXCEPT ![w] = NoH]
                   /\ lastLine' = IF Legacy THEN lastLine ELSE [lastLine EXCEPT ![w] = NoLine]
                   /\ UNCHANGED <<cfgid, log>>

LineConfident == /\ cur # "-" /\ pos <= NLines /\ KindOf(cfgid, cur, pos) = 1
                 /\ lastH' = [lastH EXCEPT ![cw] = NoH]
                 /\ lastLine' = [lastLine EXCEPT ![cw] = <<cur, pos>>]       \* keeps the OCR transcription
                 /\ pos' = pos + 1 /\ UNCHANGED <<cfgid, cur, cw, calls, log>>

\* a confident line that carries no transcription: the shortcut returns "no text" and nothing is left to re-prime the LM from
LineConfidentNoText == /\ cur # "-" /\ pos <= NLines /\ KindOf(cfgid, cur, pos) = 3
                       /\ lastH' = [lastH EXCEPT ![cw] = NoH]
                       /\ lastLine' = [lastLine EXCEPT ![cw] = NoLine]
                       /\ pos' = pos + 1 /\ UNCHANGED <<cfgid, cur, cw, calls, log>>

\* the context the decoder starts from
StartCtx(carry, h, ll) == IF ~carry THEN <<>>
                          ELSE IF h.has THEN h.c
                          ELSE IF ll # NoLine THEN <<ll>> ELSE <<>>

LineDecode == /\ cur # "-" /\ pos <= NLines /\ KindOf(cfgid, cur, pos) = 0
              /\ LET start == StartCtx(CarryOf(cfgid), lastH[cw], lastLine[cw])
                 IN /\ log' = Append(log, [call |-> calls, page |-> cur, line |-> pos, from |-> start])
                    /\ lastH' = IF CarryOf(cfgid) THEN [lastH EXCEPT ![cw] = [has |-> TRUE, c |-> Append(start, <<cur, pos>>)]]
                                ELSE lastH
              /\ lastLine' = [lastLine EXCEPT ![cw] = <<cur, pos>>]
              /\ pos' = pos + 1 /\ UNCHANGED <<cfgid, cur, cw, calls>>

\* A failing line (kind 2) is either one without logits (MissingLogits raised by the guard, nothing touched) or one whose
\* logits have no frame ("broken": the exception is raised inside the decoder call).  In the second case, with CARRY_H_OVER
\* and no confidence threshold, decode_line has already re-primed last_h from last_line when the decoder raises; the
\* exception is swallowed either way and the context the next line starts from is the same.
Broken(p, l) == (PageNo(p) + l) % 2 = 1
ThresholdSet(c) == \E p \in Pages, l \in 1..NLines : KindOf(c, p, l) \in {1, 3}
FailH(c, p, l, h, ll) == IF Broken(p, l) /\ CarryOf(c) /\ ~ThresholdSet(c) /\ ~h.has /\ ll # NoLine
                         THEN [has |-> TRUE, c |-> <<ll>>] ELSE h
LineFail == /\ cur # "-" /\ pos <= NLines /\ KindOf(cfgid, cur, pos) = 2
            /\ lastH' = [lastH EXCEPT ![cw] = FailH(cfgid, cur, pos, lastH[cw], lastLine[cw])]
            /\ pos' = pos + 1 /\ UNCHANGED <<cfgid, lastLine, cur, cw, calls, log>>

PageEnd == /\ cur # "-" /\ pos > NLines
           /\ cur' = "-" /\ pos' = 0 /\ UNCHANGED <<cfgid, lastH, lastLine, cw, calls, log>>

Next == (\E w \in Workers, p \in Pages : PageStart(w, p)) \/ LineConfident \/ LineConfidentNoText \/ LineDecode \/ LineFail \/ PageEnd
Spec == Init /\ [][Next]_vars
-----------------------------------------------------------------------------
(* what a fresh instance does with page p alone: state after the first n lines *)
RECURSIVE Alone(_, _, _)
Alone(c, p, n) ==
   IF n = 0 THEN [h |-> NoH, ll |-> NoLine]
   ELSE LET s == Alone(c, p, n - 1)
            k == KindOf(c, p, n)
        IN IF k = 1 THEN [h |-> NoH, ll |-> <<p, n>>]
           ELSE IF k = 3 THEN [h |-> NoH, ll |-> NoLine]
           ELSE IF k = 2 THEN [h |-> FailH(c, p, n, s.h, s.ll), ll |-> s.ll]
           ELSE [h |-> IF CarryOf(c) THEN [has |-> TRUE, c |-> Append(StartCtx(TRUE, s.h, s.ll), <<p, n>>)] ELSE s.h,
                 ll |-> <<p, n>>]
AloneCtx(c, p, l) == LET s == Alone(c, p, l - 1) IN StartCtx(CarryOf(c), s.h, s.ll)

\* C08: whatever was processed before, on whichever worker, a line is decoded from the context it has when the page is alone
HistoryIndependent == \A i \in 1..Len(log) : log[i].from = AloneCtx(cfgid, log[i].page, log[i].line)
\* ... in particular only earlier lines of the same page condition it
Isolation == \A i \in 1..Len(log) : \A n \in 1..Len(log[i].from) :
                 log[i].from[n][1] = log[i].page /\ log[i].from[n][2] < log[i].line
\* ... and the same page processed twice sees the same contexts
SameTwice == \A i, j \in 1..Len(log) : (log[i].page = log[j].page /\ log[i].line = log[j].line) => log[i].from = log[j].from
\* the state left behind after a page is the state a fresh instance is left in
EndState == (cur = "-" /\ calls > 0) =>
               \E p \in Pages : lastH[cw] = Alone(cfgid, p, NLines).h /\ lastLine[cw] = Alone(cfgid, p, NLines).ll
-----------------------------------------------------------------------------
(* Refinement: PageDecoder implements PageDecoderInd, the unbounded abstraction whose inductive invariant (isolation for any
   number of pages and lines) is proved with Apalache.  A context (sequence of <<page, line>> tags) is mapped to its summary
   [empty, page of its tags, largest line, mixed pages]; the ghost f is the summary of the last logged decoder call.        *)
PNo(p) == PageNo(p) + 1
MaxLineOf(c) == IF c = <<>> THEN 0 ELSE CHOOSE m \in {c[k][2] : k \in 1..Len(c)} : \A k \in 1..Len(c) : c[k][2] <= m
SumPage(c) == IF c = <<>> THEN 0 ELSE PNo(c[1][1])
SumMixed(c) == Cardinality({c[k][1] : k \in 1..Len(c)}) > 1
LastFrom == IF log = <<>> THEN <<>> ELSE log[Len(log)].from
Abs == INSTANCE PageDecoderInd WITH
          Legacy <- Legacy, carry <- CarryOf(cfgid), cur <- (IF cur = "-" THEN 0 ELSE PNo(cur)), pos <- pos,
          hHas <- lastH[cw].has, hEmpty <- (lastH[cw].c = <<>>), hPage <- SumPage(lastH[cw].c), hMax <- MaxLineOf(lastH[cw].c),
          hMixed <- SumMixed(lastH[cw].c),
          llHas <- (lastLine[cw] # NoLine), llPage <- (IF lastLine[cw] = NoLine THEN 0 ELSE PNo(lastLine[cw][1])),
          llLine <- (IF lastLine[cw] = NoLine THEN 0 ELSE lastLine[cw][2]),
          fEmpty <- (LastFrom = <<>>), fMixed <- SumMixed(LastFrom), fPage <- SumPage(LastFrom), fMax <- MaxLineOf(LastFrom),
          fAtPage <- (IF log = <<>> THEN 0 ELSE PNo(log[Len(log)].page)), fAtLine <- (IF log = <<>> THEN 0 ELSE log[Len(log)].line)
Refines == Abs!Spec

TypeOK == /\ cfgid \in 0..(NConfigs - 1) /\ cur \in Pages \cup {"-"} /\ cw \in Workers
          /\ pos \in 0..(NLines + 1) /\ calls \in 0..MaxCalls
=============================================================================
