---------------------------- MODULE LineBatcher ----------------------------
(* The batching loop of BaseEngineLineOCR.process_lines (pero_ocr/ocr_engine/line_ocr_engine.py:57-177)
   as a state machine with provenance tags: one Batch action per iteration of `while line_ids`.

   Images are identified by their input position (tag i, width w[i]); a pixel column is the tag <<i, c>>
   (c-th own column, 1-based) or 0 (padding).  A batch row is described by the record
   [tag, src, place, n, fed]: own columns src .. src+n-1 of image `tag` are visible at columns place .. place+n-1
   of a row of `fed` columns (0-based), everything else is padding.  The recognition network is a stub whose
   frame f (Sub columns per frame) is a function of the columns Sub*f-FR .. Sub*f+Sub+FR-1 of its own row
   only (bounded receptive field): Nz = number of non-padding columns in the field, ColF = own index of the
   first of them, ImgF = their image tag.  The same stub (harness/lb_common.py) is plugged into the real
   process_lines, so "line 3 got line 5's logits", "the window is shifted by the padding" or "the result
   depends on the batch" are state predicates here and mismatches of recorded executions there.

   Real constants: padding 32 px, pixel budget 480 * batch size, widths rounded up to 32, crop to the budget,
   transformer mode: width capped at max_line_width + 64, lines wider than max_line_width split into windows
   with 25 % overlap whose results are re-merged per span.

   Variant = "ok" is the code as it is (the property is expected to hold); the other values are named defective
   variants (DESIGN.md Appendix B) used only to show that the invariants are sharp.                        *)
EXTENDS Integers, Sequences, FiniteSets, TLC, SequencesExt
CONSTANTS Widths, MaxLines, BatchSizes,
          Pad,           \* line_padding_px = 32
          Sub,           \* net_subsampling = 4 (CTC engines)
          Transformer,   \* model_type = "transformer"
          MLW,           \* max_line_width (only read in transformer mode)
          Variant        \* "ok" | "scatter_pos" | "window_nopad" | "no_max1" | "place0"

FR == 2                  \* receptive-field radius of the stub network, in columns
Blk == 16                \* transformer stub: one output symbol per Blk own columns
MinOf(a, b) == IF a < b THEN a ELSE b
MaxOf(a, b) == IF a > b THEN a ELSE b
Ceil32(x) == ((x + 31) \div 32) * 32

VARIABLES w, bs, pending, out, batches
vars == <<w, bs, pending, out, batches>>

Budget == 480 * bs
NoRow == [tag |-> 0, src |-> 0, place |-> 0, n |-> 0, fed |-> 0]
None == [rows |-> <<>>, lo |-> 0, hi |-> 0]

\* ---- the stub network on one row ---------------------------------------------------------------------
FieldLo(r, f) == MaxOf(MaxOf(Sub * f - FR, 0), r.place)
FieldHi(r, f) == MinOf(MinOf(Sub * f + Sub + FR, r.fed), r.place + r.n)        \* exclusive
Nz(r, f) == MaxOf(FieldHi(r, f) - FieldLo(r, f), 0)
ColF(r, f) == IF Nz(r, f) = 0 THEN 0 ELSE r.src + (FieldLo(r, f) - r.place)
ImgF(r, f) == IF Nz(r, f) = 0 THEN 0 ELSE r.tag
Frames(r) == r.fed \div Sub
FrameOut(r, f) == <<ImgF(r, f), ColF(r, f), Nz(r, f)>>
\* frames that produce a character of the stub transcription (contiguous because the visible columns are)
TextFrames(r) == {f \in 0..(Frames(r) - 1) : Nz(r, f) > 0}
\* the same set in closed form (TextFramesClosed below is checked by TLC): first and last such frame
TextF0(r) == IF r.place >= FR THEN (r.place - FR) \div Sub ELSE 0
TextF1(r) == MinOf((r.place + r.n + FR - 1) \div Sub, Frames(r) - 1)
TextCount(r) == IF r.n = 0 \/ TextF1(r) < TextF0(r) THEN 0 ELSE TextF1(r) - TextF0(r) + 1

\* the same network applied to image i alone, in the image's own coordinates (g = frame index counted from the
\* frame that starts at the image's first column): this is "the result computed from that image"
ASSUME Pad % Sub = 0 /\ Sub >= FR
OwnRow(i) == [tag |-> i, src |-> 1, place |-> Sub, n |-> w[i], fed |-> Sub + w[i] + Sub + FR]
OwnFrame(i, g) == FrameOut(OwnRow(i), g + 1)

\* ---- weights of the stub's output layer (posterior of class c at a frame = weight / sum) ------------------
WA == 29990
S4(img) == CASE img % 4 = 0 -> 12 [] img % 4 = 1 -> 13 [] img % 4 = 2 -> 12 [] OTHER -> 40
S5(img) == CASE img % 4 = 0 -> 2 [] img % 4 = 1 -> 11 [] img % 4 = 2 -> 12 [] OTHER -> 3000
WSum(fo) == 4 * WA + fo[1] + (fo[2] % 1000) + (fo[2] \div 1000) + fo[3] + S4(fo[1]) + S5(fo[1])
\* sparse storage: a logit is kept iff its posterior is at least 1e-4, i.e. weight * 10^4 >= sum of weights
\* (exact equality cannot be decided in floating point: both outcomes are admitted there)
MustKeep(wt, sum) == wt * 10000 > sum
MustDrop(wt, sum) == wt * 10000 < sum
KeptOK(obs, wt, sum) == IF MustKeep(wt, sum) THEN obs = wt ELSE IF MustDrop(wt, sum) THEN obs = 0 ELSE obs \in {0, wt}

\* ---- the same rule in the LOGIT domain (frames of a wide dynamic range; round 8) ----------------------------------
\* The stub above hands out log-weights whose spread inside a frame is ln(30000 / 2) < 10.  Real networks emit frames whose
\* logits spread over 60, 100 or 800 units and sit on a large common offset; the statement is about the POSTERIOR, which is a
\* function of the distances below the frame's top logit only:  a frame of C classes has the integer logits off - D(c), D(c) >= 0,
\* D = 0 for the top class;  posterior(c) = e^-D(c) / S,  S = sum over the classes of e^-D  (1 <= S <= C; off cancels).
\* A logit is kept iff e^-D * 10^4 >= S.  Exp8(d) = round(10^8 * e^-d) (0 beyond d = 19) makes that integer arithmetic:
\*   D <= 6            : e^-6 * 10^4 = 24.8 > 1.02 * C for C <= 16                         -> must be kept
\*   D >= 10           : e^-10 * 10^4 = 0.45 < 1 <= S                                      -> must be dropped
\*   D in 7..9         : Exp8(D) * 10^4 against S8 = 10^8 * S with a band of 2 % (float32 round-off of the code's softmax
\*                       is ~1e-6: more than 1000 x); inside the band both outcomes are admitted
Exp8Tab == <<100000000, 36787944, 13533528, 4978707, 1831564, 673795, 247875, 91188, 33546, 12341, 4540, 1670, 614, 226, 83,
             31, 11, 4, 2, 1>>
Exp8(d) == IF d < Len(Exp8Tab) THEN Exp8Tab[d + 1] ELSE 0
ASSUME /\ Exp8(0) = 100000000
       /\ \A d \in 0..4 : Exp8(d) \div (Exp8(d + 1) \div 1000) \in 2700..2740    \* e = 2.718... (32-bit integers)
       /\ \A d \in 5..11 : (Exp8(d) * 1000) \div Exp8(d + 1) \in 2700..2740
       /\ \A d \in 0..30 : Exp8(d + 1) <= Exp8(d)
RECURSIVE SpAcc(_, _)
SpAcc(ds, k) == IF k = 0 THEN 0 ELSE Exp8(ds[k]) + SpAcc(ds, k - 1)
\* S8 of a frame whose classes next to the top lie ds[1], ds[2], ... below it and all remaining ones fl below it
SpSum8(ds, fl, C) == Exp8(0) + SpAcc(ds, Len(ds)) + (C - 1 - Len(ds)) * Exp8(fl)
SpMaxC == 16
SpMustKeep(D, s8) == IF D <= 6 THEN TRUE ELSE (D <= 9 /\ Exp8(D) * 10000 > s8 + s8 \div 50)
SpMustDrop(D, s8) == IF D >= 10 THEN TRUE ELSE (D >= 7 /\ Exp8(D) * 10000 < s8 - s8 \div 50)
\* obs = the stored value (0 = not stored), val = the logit
SpStoredOK(obs, val, D, s8) == IF SpMustKeep(D, s8) THEN obs = val ELSE IF SpMustDrop(D, s8) THEN obs = 0 ELSE obs \in {0, val}
ASSUME \A D \in 0..40 : \A n \in 1..SpMaxC : ~(SpMustKeep(D, n * Exp8(0)) /\ SpMustDrop(D, n * Exp8(0)))

\* ---- process_lines ------------------------------------------------------------------------------------------
\* sorted(enumerate(lines), key=-width): Python's sort is stable
SortedIds(ws) == SortSeq([i \in 1..Len(ws) |-> i], LAMBDA a, b : ws[a] > ws[b] \/ (ws[a] = ws[b] /\ a < b))

Init == /\ w \in UNION {[1..n -> Widths] : n \in 0..MaxLines}
        /\ bs \in BatchSizes
        /\ pending = SortedIds(w)
        /\ out = [i \in 1..Len(w) |-> None]
        /\ batches = <<>>

\* transformer mode: windows of max_line_width columns advancing by max_line_width - max_line_width // 4
RECURSIVE PartsFrom(_, _, _)
PartsFrom(i, start, end) ==
    IF end < w[i] THEN <<[src |-> start + 1, n |-> end - start]>> \o PartsFrom(i, start + (MLW - MLW \div 4), end + (MLW - MLW \div 4))
    ELSE <<[src |-> start + 1, n |-> w[i] - start]>>
Parts(i) == IF Transformer /\ w[i] > MLW THEN PartsFrom(i, 0, MLW) ELSE <<[src |-> 1, n |-> w[i]]>>

DesignMaxW == LET m == Ceil32(w[pending[1]]) IN IF Transformer THEN MinOf(m, MLW + 2 * Pad) ELSE m
DesignCount == LET q == Budget \div DesignMaxW IN IF Variant = "no_max1" THEN q ELSE MaxOf(1, q)
DesignIds == SubSeq(pending, 1, MinOf(DesignCount, Len(pending)))
DesignFed == MinOf(DesignMaxW + 2 * Pad, Budget)                \* cropped to the engine maximum

PlaceAt == IF Variant = "place0" THEN 0 ELSE Pad
RowsOf(i, fed) == LET ps == Parts(i)
                  IN [k \in 1..Len(ps) |-> [tag |-> i, src |-> ps[k].src, place |-> PlaceAt,
                                            n |-> MaxOf(MinOf(ps[k].n, fed - PlaceAt), 0), fed |-> fed]]
\* logit_coords as the code computes them for the line at index i
CoordLo(i) == IF Variant = "window_nopad" THEN 0 ELSE Pad \div Sub
CoordHi(i) == IF Variant = "window_nopad" THEN w[i] \div Sub ELSE (Pad + w[i]) \div Sub

\* one iteration with the given batch composition: ids = image indices in batch order, fed = row width fed to the net
BatchWith(ids, fed) ==
    /\ pending' = SelectSeq(pending, LAMBDA p : \A j \in 1..Len(ids) : ids[j] # p)
    /\ batches' = Append(batches, [ids |-> ids, fed |-> fed,
                                   rows |-> FlattenSeq([j \in 1..Len(ids) |-> RowsOf(ids[j], fed)]),
                                   spans |-> [j \in 1..Len(ids) |-> Len(Parts(ids[j]))]])
    \* scatter: the j-th (merged) result of the batch is stored at index ids[j]
    /\ LET target(j) == IF Variant = "scatter_pos" THEN j ELSE ids[j]
       IN out' = [i \in 1..Len(w) |->
                    IF \E j \in 1..Len(ids) : target(j) = i
                    THEN LET j == CHOOSE j \in 1..Len(ids) : target(j) = i /\ \A k \in (j+1)..Len(ids) : target(k) # i
                         IN [rows |-> RowsOf(ids[j], fed), lo |-> CoordLo(i), hi |-> CoordHi(i)]
                    ELSE out[i]]
    /\ UNCHANGED <<w, bs>>

Batch == pending # <<>> /\ BatchWith(DesignIds, DesignFed)
Next == Batch
Spec == Init /\ [][Next]_vars /\ WF_vars(Next)

\* ======================================== properties (C07) ==========================================
Done == pending = <<>>
Row1(i) == out[i].rows[1]
\* the line's whole extent is inside the row fed to the network ("not truncated by the engine maximum")
NotTrunc(i) == out[i].rows # <<>> /\ Pad + w[i] <= Row1(i).fed
\* every position holds the result computed from the image at that position
OwnResult == Done => \A i \in 1..Len(w) : /\ out[i].rows # <<>>
                                           /\ \A k \in 1..Len(out[i].rows) : out[i].rows[k].tag = i
\* every index is processed exactly once
WrittenOnce == \A i \in 1..Len(w) :
                  LET c == Cardinality({b \in 1..Len(batches) : \E j \in 1..Len(batches[b].ids) : batches[b].ids[j] = i})
                  IN  c <= 1 /\ (Done => c = 1)
\* CTC engines: the frame window is [Pad div Sub, (Pad + width) div Sub] and lies inside the returned frames ...
WindowOK == (Done /\ ~Transformer) =>
               \A i \in 1..Len(w) : NotTrunc(i) =>
                   /\ out[i].lo = Pad \div Sub /\ out[i].hi = (Pad + w[i]) \div Sub
                   /\ out[i].hi <= Frames(Row1(i))
\* ... it covers exactly the un-padded extent: a frame is inside iff all of its columns are columns of the line ...
WindowIsExtent == (Done /\ ~Transformer) =>
               \A i \in 1..Len(w) : NotTrunc(i) =>
                   /\ Row1(i).src = 1 /\ Row1(i).n = w[i]
                   /\ \A f \in 0..(Frames(Row1(i)) - 1) :
                       (out[i].lo <= f /\ f < out[i].hi) <=>
                       (Row1(i).place <= Sub * f /\ Sub * f + Sub <= Row1(i).place + Row1(i).n)
\* ... and inside it the network output equals the output for the image alone: independent of the order of the
\* list, of the lines sharing the batch and of the batch size (the right-hand side mentions w[i] only)
Independent == (Done /\ ~Transformer) =>
               \A i \in 1..Len(w) : NotTrunc(i) =>
                   \A f \in out[i].lo..(out[i].hi - 1) : FrameOut(Row1(i), f) = OwnFrame(i, f - out[i].lo)
\* the transcription (the stub emits one symbol per frame that sees the line, also just outside the window) equals the
\* transcription of the image alone when the row kept its full right padding, i.e. was not cropped into the padding
FullPad(i) == out[i].rows # <<>> /\ Pad + w[i] + Pad <= Row1(i).fed
TextOwn == (Done /\ ~Transformer) =>
               \A i \in 1..Len(w) : FullPad(i) =>
                   /\ TextCount(Row1(i)) = TextCount(OwnRow(i))
                   /\ \A k \in 0..(TextCount(Row1(i)) - 1) :
                         FrameOut(Row1(i), TextF0(Row1(i)) + k) = FrameOut(OwnRow(i), TextF0(OwnRow(i)) + k)
\* batches respect the pixel budget unless a single line exceeds it
BatchWithinBudget == \A b \in 1..Len(batches) :
                        Len(batches[b].ids) = 1 \/ Len(batches[b].ids) * (batches[b].fed - 2 * Pad) <= Budget
\* transformer mode: the windows of a line tile it in order with the prescribed overlap, every window fits the row
PartsCover == (Done /\ Transformer) =>
               \A i \in 1..Len(w) :
                   LET rs == out[i].rows
                   IN /\ rs # <<>> /\ rs[1].src = 1
                      /\ rs[Len(rs)].src + rs[Len(rs)].n - 1 = w[i]
                      /\ \A k \in 1..(Len(rs) - 1) : /\ rs[k].n = MLW
                                                     /\ rs[k+1].src = rs[k].src + MLW - MLW \div 4
                      /\ \A k \in 1..Len(rs) : rs[k].n >= 1 /\ rs[k].place + rs[k].n <= rs[k].fed
SpansConsistent == \A b \in 1..Len(batches) :
                      LET s == batches[b].spans
                          RECURSIVE Tot(_)
                          Tot(k) == IF k = 0 THEN 0 ELSE Tot(k - 1) + s[k]
                      IN Tot(Len(s)) = Len(batches[b].rows)
TextFramesClosed == (Done /\ ~Transformer) =>
               \A i \in 1..Len(w) : out[i].rows # <<>> =>
                   TextFrames(Row1(i)) = {f \in TextF0(Row1(i))..(TextF0(Row1(i)) + TextCount(Row1(i)) - 1) : TRUE}
Terminates == <>Done
\* every iteration removes at least one line from the work list
Progress == [][Len(pending') < Len(pending)]_vars
=============================================================================
