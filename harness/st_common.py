"""C15 helper: run the real merge_transcriptions_and_logits / find_best_overlap on lists of parts and record
integer-only traces in the Stitch_Trace format (logits rows tagged <<part, row index>>)."""
import itertools

import numpy as np

from pero_ocr.ocr_engine import line_ocr_engine as L

from .core import pmap

LETTERS = "abcdefgh"


def text_of(ids):
    """ids 1..8 = the letters a..h; every id above 99 is the Unicode code point of the character itself (scale cases)"""
    return "".join(LETTERS[i - 1] if i <= len(LETTERS) else chr(i) for i in ids)


def ids_of(text):
    """inverse of text_of; 99 = a character no case ever contains (code point below 100 other than a..h)"""
    return [LETTERS.index(c) + 1 if c in LETTERS else (ord(c) if ord(c) > 99 else 99) for c in text]


def strings(alphabet, maxlen):
    out = []
    for n in range(maxlen + 1):
        out += [list(p) for p in itertools.product(range(1, alphabet + 1), repeat=n)]
    return out


def logits_of(p, n):
    """n rows, row j = [part, j] (1-based)"""
    return np.array([[p, j] for j in range(1, n + 1)], dtype=np.float64).reshape(n, 2)


def _rows(arr):
    arr = np.asarray(arr)
    if arr.ndim != 2 or arr.shape[1] != 2:
        return [[0, 0]] * int(arr.shape[0]) if arr.ndim >= 1 else []
    return [[int(r[0]), int(r[1])] for r in arr]


def _failing_call():
    """a call outside the scope sentence (no part at all) that may raise: whatever it does, it must leave nothing behind
    that changes the following in-scope calls of the same process"""
    try:
        L.merge_transcriptions_and_logits([], [])
    except Exception:
        pass


def run_case(case):
    """case = {"parts": [[ids]], "extra": [int]} and optionally "kind" ("parts" | "scale" | "big"), "line" (ids of the text
    the parts were cut from) and "starts" (1-based start of every part in it).  Scale cases are preceded by a call that may
    fail and hand the SAME logits arrays to every call (a caller may keep its engine outputs), the others get copies."""
    parts = [text_of(p) for p in case["parts"]]
    logits = [logits_of(i + 1, len(p) + e) for i, (p, e) in enumerate(zip(parts, case["extra"]))]
    kind = case.get("kind", "parts")
    rec = {"kind": kind, "line": list(case.get("line", [])), "starts": list(case.get("starts", [])),
           "parts": case["parts"], "extra": case["extra"], "steps": []}
    if kind != "parts":
        _failing_call()
    prev_text = None
    for j in range(1, len(parts) + 1):
        step = {"o": 0, "text": [], "rows": [], "outcome": "ok"}
        try:
            if j > 1:
                step["o"] = int(L.find_best_overlap(prev_text, parts[j - 1]))
            text, lg = L.merge_transcriptions_and_logits(list(parts[:j]), [x if kind != "parts" else x.copy() for x in logits[:j]])
            step["text"] = ids_of(text)
            step["rows"] = _rows(lg)
            prev_text = text
        except Exception as ex:       # part of the observation
            step["outcome"] = "exception:" + type(ex).__name__
            rec["steps"].append(step)
            break
        rec["steps"].append(step)
    while len(rec["steps"]) < len(parts):
        rec["steps"].append({"o": 0, "text": [], "rows": [], "outcome": "not-run"})
    last = rec["steps"][-1]
    rec["final"] = {"text": list(last["text"]), "rows": [list(r) for r in last["rows"]], "outcome": last["outcome"]}
    return rec


def run_cases(cases, procs=6):
    return pmap(run_case, cases, procs=procs)


# ---------------------------------------------------------------- through BaseEngineLineOCR.process_lines
CELL = 8            # pixels per character cell
MAX_LINE_WIDTH = 64  # 8 cells per window, overlap 64 // 4 = 16 px = 2 cells, step 6 cells
HEIGHT = 4


def _engine(workdir):
    import json
    import os
    import torch

    class StubEngine(L.BaseEngineLineOCR):
        """run_ocr reads the text back from the pixels: channel 0 = character id (0 = blank stretch, no character),
        channel 1 = line id + 1 (marks the cells that belong to a line), channel 2 = cell index + 1."""
        def __init__(self, json_def):
            super().__init__(json_def, torch.device("cpu"), batch_size=8, model_type="transformer")
            self.net_subsampling = 1
            self.windows = []

        def run_ocr(self, batch_data):
            ts, ls = [], []
            for img in batch_data:
                chars, line, first = [], None, None
                for px in range(self.line_padding_px, img.shape[1], CELL):
                    if img[0, px, 1] > 0:
                        line = int(img[0, px, 1]) - 1
                        cell = int(img[0, px, 2]) - 1
                        first = cell if first is None else first
                        if img[0, px, 0] > 0:
                            chars.append(int(img[0, px, 0]))
                if line is not None and first > 0 and chars and (line + first) % 3 == 0:
                    chars[0] = 1 + chars[0] % 4                      # recognition noise inside the overlap
                extra = 0 if first is None else (first // 6) % 3
                key = 0 if first is None else first + 1
                text = text_of(chars)
                self.windows.append((line, first, chars, extra))
                ts.append(text)
                ls.append(np.array([[key, j] for j in range(1, len(chars) + extra + 1)], dtype=np.float64).reshape(-1, 2))
            return ts, ls

    path = os.path.join(workdir, "stub_engine.json")
    if not os.path.exists(path):
        # atomically: forked workers running side by side must never read a half-written file
        tmp = "%s.%d.tmp" % (path, os.getpid())
        with open(tmp, "w") as fh:
            json.dump({"line_px_height": HEIGHT, "line_vertical_scale": 1, "checkpoint": "none", "characters": list(LETTERS[:4]),
                       "net_name": "stub", "max_line_width": MAX_LINE_WIDTH}, fh)
        os.replace(tmp, path)
    return StubEngine(path)


def run_engine_case(case):
    """case = {"lines": [[character id or 0 per cell]], "workdir": dir} -> one trace per line"""
    eng = _engine(case["workdir"])
    imgs = []
    for li, cells in enumerate(case["lines"]):
        img = np.zeros((HEIGHT, CELL * len(cells), 3), dtype=np.uint8)
        for ci, ch in enumerate(cells):
            img[:, ci * CELL:(ci + 1) * CELL, 0] = ch
            img[:, ci * CELL:(ci + 1) * CELL, 1] = li + 1
            img[:, ci * CELL:(ci + 1) * CELL, 2] = ci + 1
        imgs.append(img)
    out = {"outcome": "ok"}
    try:
        texts, logits, _ = eng.process_lines(imgs, sparse_logits=False, tight_crop_logits=False)
    except Exception as ex:           # part of the observation
        out["outcome"] = "exception:" + type(ex).__name__
        texts, logits = [""] * len(imgs), [np.zeros((0, 2))] * len(imgs)
    recs = []
    for li, cells in enumerate(case["lines"]):
        wins = sorted([w for w in eng.windows if w[0] == li], key=lambda w: w[1])
        if not wins:                  # a line whose window was never seen by run_ocr cannot be judged
            continue
        rec = run_case({"parts": [w[2] for w in wins], "extra": [w[3] for w in wins]})
        part_of = {w[1] + 1: i + 1 for i, w in enumerate(wins)}
        rec["final"] = {"outcome": out["outcome"], "text": ids_of(texts[li]) if isinstance(texts[li], str) else [99],
                        "rows": [[part_of.get(int(r[0]), 0), int(r[1])] for r in np.asarray(logits[li]).reshape(-1, 2)]}
        rec["engine"] = {"cells": cells, "line": li}
        recs.append(rec)
    return recs
