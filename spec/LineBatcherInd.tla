--------------------------- MODULE LineBatcherInd ---------------------------
(* Unbounded counterpart of LineBatcher.tla for C07, written for Apalache: the batching loop of
   BaseEngineLineOCR.process_lines seen from ONE arbitrary input position P of a list of ANY length, for ANY sequence of
   batch sizes the budget arithmetic may produce (the count admitted per iteration is any c >= 1: max(1, budget div width)).

   The work list is the list of input positions sorted by width; what matters for position p is summarised by
       len  = length of the work list                       (Len(pending) in LineBatcher.tla)
       inP  = p is still on the work list
       r    = number of entries in front of p               (index of p in pending, minus one; 0 when not inP)
       cnt  = how often slot p of the result lists was written
       tag  = whose result slot p holds: "none" | "own" | "other"
       stalled = some iteration removed nothing from the work list (ghost)
   One Batch action per iteration of `while line_ids`: the first k = min(c, len) entries are recognised and the j-th result of
   the batch is stored at the index ids[j] (Variant "ok") - or at index j (Variant "scatter_pos", a named defect of
   LineBatcher.tla); Variant "no_max1" drops the max(1, ...) so that c = 0 is possible.

   IndInv is inductive (apalache-mc: Init => IndInv, IndInv /\ Next => IndInv' from an arbitrary IndInv state), hence for ANY
   number of lines and ANY batch composition: when the loop ends, slot p was written exactly once and holds the result computed
   from the image at position p (OwnResult / WrittenOnce of LineBatcher.tla), and every iteration makes progress.
   LineBatcher.tla carries the refinement mapping (AbsLine(i) == INSTANCE LineBatcherInd ...), checked by TLC for every
   position of its bounded configurations.

     apalache-mc check --cinit=CInitOk --init=IndInit --inv=IndInv --length=1 LineBatcherInd.tla
     apalache-mc check --cinit=CInitOk --init=Init    --inv=IndInv --length=0 LineBatcherInd.tla
     apalache-mc check --cinit=CInitScatterPos --init=IndInit --inv=IndInv --length=1 LineBatcherInd.tla     (must fail)
     apalache-mc check --cinit=CInitNoMax1     --init=IndInit --inv=IndInv --length=1 LineBatcherInd.tla     (must fail)   *)
EXTENDS Integers

CONSTANTS
    \* @type: Int;
    P,
    \* @type: Str;
    Variant

VARIABLES
    \* @type: Int;
    len,
    \* @type: Bool;
    inP,
    \* @type: Int;
    r,
    \* @type: Int;
    cnt,
    \* @type: Str;
    tag,
    \* @type: Bool;
    stalled

vars == <<len, inP, r, cnt, tag, stalled>>

CInitOk == P \in Int /\ 1 <= P /\ Variant = "ok"
CInitScatterPos == P \in Int /\ 1 <= P /\ Variant = "scatter_pos"
CInitNoMax1 == P \in Int /\ 1 <= P /\ Variant = "no_max1"

\* sorted(enumerate(lines)): a list of any length len >= P, position P sits somewhere in the sorted work list
Init == /\ len \in Int /\ len >= P /\ inP = TRUE
        /\ r \in Int /\ 0 <= r /\ r < len
        /\ cnt = 0 /\ tag = "none" /\ stalled = FALSE

\* one iteration: the pixel budget admits c >= 1 lines (max(1, budget div width)), k = min(c, len) of them are there - so k is
\* any number in 1..len (written with k so that TLC can evaluate the step for the refinement check of LineBatcher.tla)
BatchOf(k) ==
    LET mineInBatch == inP /\ r < k
    IN /\ len' = len - k
       /\ stalled' = (stalled \/ k = 0)
       /\ inP' = (inP /\ ~mineInBatch)
       /\ r' = (IF inP /\ ~mineInBatch THEN r - k ELSE 0)
       /\ IF Variant = "scatter_pos"
          THEN \* the j-th result goes to slot j: slot P is written iff the batch has at least P rows, with the result of ids[P]
               /\ cnt' = (IF k >= P THEN cnt + 1 ELSE cnt)
               /\ tag' = (IF k >= P THEN (IF mineInBatch /\ r + 1 = P THEN "own" ELSE "other") ELSE tag)
          ELSE \* the j-th result goes to slot ids[j]: slot P is written iff P is in the batch, with its own result
               /\ cnt' = (IF mineInBatch THEN cnt + 1 ELSE cnt)
               /\ tag' = (IF mineInBatch THEN "own" ELSE tag)

Batch == /\ len > 0
         /\ \E k \in 0..len : /\ (Variant = "no_max1" \/ k >= 1)
                              /\ BatchOf(k)

Next == Batch
Spec == Init /\ [][Next]_vars

Done == len = 0
\* C07: when the loop ends the slot of every input position holds the result computed from the image at that position ...
OwnResult == Done => tag = "own"
\* ... and was written exactly once (never more than once on the way)
WrittenOnce == cnt <= 1 /\ (Done => cnt = 1)
\* every iteration removes at least one line from the work list (termination of the loop for any finite list)
Progress == ~stalled

IndInv == /\ len >= 0 /\ r >= 0 /\ cnt >= 0
          /\ tag \in {"none", "own", "other"}
          /\ inP => (r < len /\ cnt = 0 /\ tag = "none")
          /\ ~inP => (cnt = 1 /\ tag = "own" /\ r = 0)
          /\ OwnResult /\ WrittenOnce /\ Progress

IndInit == /\ len \in Int /\ r \in Int /\ cnt \in Int
           /\ inP \in BOOLEAN /\ stalled \in BOOLEAN
           /\ tag \in {"none", "own", "other"}
           /\ IndInv
=============================================================================
