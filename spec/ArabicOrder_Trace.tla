------------------------- MODULE ArabicOrder_Trace -------------------------
(* Trace layer for ArabicOrder.  One trace = one string pushed through the real
       r1 = ArabicHelper().string_to_label_form(text) ;  r2 = ArabicHelper().label_form_to_string(r1)
   and projected back to class tokens (a character that is not one of the instantiated code points is
   recorded as "?", so an invented or changed character can never look like a permutation).

   The recorded results are bound to the design's variables in the state "both calls returned" and the
   design's own invariants are evaluated on it (pure-function idiom of the harness README):
     Level = "property":  Permutation /\ Permutation2 /\ Involution      -> rejection = VIOLATION
     Level = "model"   :  additionally r1 = Rev(text) (the run-splitting transcription) -> rejection = MODEL-DRIFT *)
EXTENDS ArabicOrder, TraceKit
CONSTANT Level
VARIABLES tid, clause

Tr == Traces[tid]

Clause == IF Tr.outcome # "ok" THEN 1
          ELSE IF ~Permutation THEN 2
          ELSE IF ~Permutation2 THEN 3
          ELSE IF ~Involution THEN 4
          ELSE IF Level = "model" /\ ~MachineIsRev THEN 5
          ELSE 0

TInit == /\ tid \in 1..NTraces
         /\ text = Traces[tid].text
         /\ r1 = Traces[tid].r1 /\ r2 = Traces[tid].r2
         /\ call = 3 /\ src = r1 /\ i = Len(r1) /\ st = RunState0 /\ phase = "idle"
         /\ clause = Clause

TNext == UNCHANGED <<vars, tid, clause>>

TAccept == TKMark(tid, clause, clause = 0)
TPost == TKPost
ASSUME TKReset
=============================================================================
