"""DECODETOOL - growth beyond the listed properties (DESIGN.md section 8 / 12.5): the stand-alone decoding interface
pero_ocr/decoding/decoding_itf.py (decoder_factory, decode_page / decode_paragraph, TimeLogger) and pero_ocr/transcription_io.py
(save_transcriptions / load_transcriptions / parse_transcription_line).

TLC checks the four machines of spec/DecodeTool.tla (intended behaviour, Legacy=FALSE; five must-violate runs with Legacy=TRUE);
every initial state / call sequence of the same bounds is executed on the REAL code (the only stub is the language-model file
loader: a trained model would be needed) and the recorded run is validated by DecodeTool_Trace with Legacy=TRUE (= the code as
it is today).  Seeded larger cases (long lines, many labels, long files, long call sequences) go through the same trace
specification.

Not a listed property: a rejected run is printed as DECODETOOL-MISMATCH and makes the command exit 1, but no VIOLATION line
for any property id is produced."""
import concurrent.futures
import configparser
import contextlib
import io
import itertools
import os
import random
import re

from ..core import pmap

LEVEL = "model_checking"
UNKNOWN = 999999          # a counter the harness could not read (private attribute renamed): the trace specification skips it
MISSING, BAD = 1000001, 1000002
BLANK = "<BLANK>"

F_INV = ["F_TypeOK", "F_OnlyDocumentedErrors", "F_LettersOK", "F_Decision", "F_NoneOnlyIfAllowed", "F_MissingScaleRefused"]
L_INV = ["L_TypeOK", "L_OnlyDocumentedErrors", "L_Counters"]
D_INV = ["D_TypeOK", "D_OnlyDocumentedErrors", "D_OwnLogits", "D_Counters", "D_ErrorsExplained"]
T_INV = ["T_TypeOK", "T_OnlyDocumentedErrors", "T_RoundTripExact", "T_RoundTripOrder", "T_SavedShape", "T_LoopIsLoad", "T_LastWins",
         "T_ErrLine", "T_BlankLinesIgnored", "T_FinalNewlineOptional", "T_ParseParts"]


def bounds(tier):
    q = tier == "quick"
    return {"BeamVals": {0, 2} if q else {0, 1, 2}, "ScaleVals": {500} if q else {0, 500}, "BonusVals": {0} if q else {0, 250},
            "NCharLists": 4 if q else 6,
            "MaxOps": 4 if q else 5, "MaxFr": 2,
            "NC": 3, "LevelCodes": {9, 11}, "MaxT": 2, "MaxPars": 2, "NPal": 3 if q else 4, "hist_npal": 3,
            "lines_louds": [False] if q else [False, True], "lines_kinds": ["greedy"] if q else ["greedy", "lenient"],
            "hist_calls": 2 if q else 3,
            "K1": 1 if q else 2, "V1": 3 if q else 4, "K2": 1, "V2": 1, "MaxFile": 5 if q else 6, "MaxLine": 4 if q else 5,
            "sampled": 40 if q else 300}


def consts(b, legacy, universe="pages", louds=(False, True), calls=1, kinds=("greedy", "lenient"), npal=None, **over):
    c = {"Legacy": legacy, "BeamVals": b["BeamVals"], "ScaleVals": b["ScaleVals"], "BonusVals": b["BonusVals"],
         "NCharLists": b["NCharLists"], "DKindSet": set(kinds), "NPal": npal or b["NPal"],
         "MaxOps": b["MaxOps"], "MaxFr": b["MaxFr"], "NC": b["NC"], "LevelCodes": b["LevelCodes"], "MaxT": b["MaxT"],
         "DUniverse": universe, "MaxPars": b["MaxPars"], "MaxCalls": calls, "DLouds": set(louds),
         "K1": b["K1"], "V1": b["V1"], "K2": b["K2"], "V2": b["V2"], "MaxFile": b["MaxFile"], "MaxLine": b["MaxLine"]}
    c.update(over)
    return c


TRACE_CONSTS = None     # set in run(): the bounds of the design runs are irrelevant for trace validation, only Legacy=TRUE matters


# ===================================================================================================================
# the real code, with the one stub (language-model loader) and two observers (TimeLogger instances, stdout)
# ===================================================================================================================
class StubVocab:
    def __init__(self):
        self.table, self.inv = {}, []

    def __getitem__(self, c):
        if c not in self.table:
            self.table[c] = len(self.inv) + 7
            self.inv.append(c)
        return self.table[c]


class StubLM:
    """stands for the trained language model file that LM = <path> names"""
    def __init__(self):
        self.vocab = StubVocab()

    def eval(self):
        return self

    def to(self, device):
        return self


_ENV = {}


def env():
    if _ENV:
        return _ENV
    import logging
    logging.disable(logging.CRITICAL)
    from pero_ocr.decoding import decoding_itf as D
    from pero_ocr import transcription_io as TIO
    loads = []

    def loader(path):
        loads.append(path)
        return StubLM()
    D.language_model.torchscript_import = loader
    real_logger = D.TimeLogger

    class SpyLogger(real_logger):
        made = []

        def __init__(self, *a, **k):
            real_logger.__init__(self, *a, **k)
            SpyLogger.made.append(self)
    _ENV.update(D=D, TIO=TIO, loads=loads, real_logger=real_logger, spy=SpyLogger, decoders={}, tmp=None)
    return _ENV


def tok(ch):
    """concrete character -> token that is safe in a TLA+ string"""
    if ch == BLANK or (len(ch) == 1 and ch.isascii() and ch.isalnum()):
        return ch
    return "u" + "_".join("%04x" % ord(c) for c in ch)


def counters(t):
    if t is None:
        return UNKNOWN, UNKNOWN
    return getattr(t, "_nb_lines", UNKNOWN), getattr(t, "_total_nb_frames", UNKNOWN)


# ------------------------------------------------------------------------------------------------ decoder_factory
def fnum(v, style):
    x = v / 1000.0
    return [repr(x), "%g" % x, "%.3f" % x, "%e" % x][style % 4]


def exec_factory(case):
    e = env()
    D = e["D"]
    import torch
    cfg, r = case["cfg"], case.get("render", {})
    sec = {}
    up = (lambda s: s) if r.get("upper", True) else (lambda s: s.lower())       # configparser option names are case-insensitive
    if cfg["type"] != "missing":
        sec[up("TYPE")] = cfg["type"] if cfg["type"] != "other" else r.get("type", "greedy")
    if cfg["beam"] == BAD:
        sec[up("BEAM_SIZE")] = r.get("badint", "x")
    elif cfg["beam"] != MISSING:
        sec[up("BEAM_SIZE")] = str(cfg["beam"])
    for key, name in (("scale", "LM_SCALE"), ("bonus", "INSERTION_BONUS")):
        if cfg[key] == BAD:
            sec[up(name)] = r.get("badfloat", "y")
        elif cfg[key] != MISSING:
            sec[up(name)] = fnum(cfg[key], r.get("style", 0))
    if cfg["lm"]:
        sec[up("LM")] = "lm/model.pt"
    for k in r.get("extra", []):
        sec[k] = "no"
    cp = configparser.ConfigParser()
    cp["DECODER"] = sec
    chars = list(case["concrete"])
    before = list(chars)
    del e["loads"][:]
    rec = {"kind": "factory", "cfg": cfg, "chars": [tok(c) for c in before], "allow": case["allow"], "outcome": "ok",
           "out": {"cls": "none", "letters": [], "k": 0, "scale": 0, "bonus": 0, "lm": {"on": False, "syms": []}}}
    try:
        with contextlib.redirect_stderr(io.StringIO()):
            dec = D.decoder_factory(cp["DECODER"], chars, torch.device("cpu"), allow_no_decoder=case["allow"], config_path="/nonexistent")
        if dec is None:
            rec["outcome"] = "none"
        else:
            out = rec["out"]
            out["cls"] = type(dec).__name__
            out["letters"] = [tok(c) for c in dec._letters]
            if out["cls"] == "CTCPrefixLogRawNumpyDecoder":
                out["k"] = int(dec._k)
                out["scale"] = int(round(float(dec._lm_scale) * 1000))
                out["bonus"] = int(round(float(dec._insertion_bonus) * 1000))
                if dec._lm is not None:
                    w = dec._lm
                    inv = w._lm.vocab.inv
                    out["lm"] = {"on": True, "syms": [tok(inv[w._dict[i] - 7]) for i in range(len(w._dict))]}
    except Exception as ex:
        rec["outcome"] = type(ex).__name__
    rec["lmloads"] = len(e["loads"])
    rec["charsafter"] = [tok(c) for c in chars]        # the caller's list must not be touched
    return rec


def factory_cases(b, rng):
    beams = [MISSING, BAD, -1] + sorted(b["BeamVals"])
    scales = [MISSING, BAD] + sorted(b["ScaleVals"])
    bonuses = [MISSING, BAD, -500] + sorted(b["BonusVals"])
    charlists = [["a", "b"], ["a", "a"], ["a", BLANK], [], ["a"], [BLANK]][:b["NCharLists"]]
    others = ["greedy", "Greedy", "FAST_LOG_RAW", "fast-log-raw", "CTC", "BEAM", "FAST-LOG-RAW-2", "GREEDY_"]
    for ty, be, sc, bo, lm, ch, al in itertools.product(("FAST-LOG-RAW", "GREEDY", "other", "missing"), beams, scales, bonuses,
                                                        (False, True), charlists, (False, True)):
        yield {"kind": "factory", "cfg": {"type": ty, "beam": be, "scale": sc, "bonus": bo, "lm": lm}, "concrete": ch, "allow": al,
               "render": {"type": rng.choice(others), "badint": rng.choice(["x", "2.0", "1e1", "two", "0x2"]),
                          "badfloat": rng.choice(["y", "1,5", "0.5.1", "--1"]), "style": rng.randrange(4),
                          "upper": rng.random() < 0.7,
                          "extra": rng.sample(["USE_CPU", "CARRY_H_OVER", "CONFIDENCE_THRESHOLD", "LM_NAME", "BEAM"], rng.randrange(3))}}


def factory_sampled(rng, n):
    pool = [chr(c) for c in itertools.chain(range(0x21, 0x7f), range(0xc0, 0x250), range(0x400, 0x460), range(0x4e00, 0x4e80))]
    for _ in range(n):
        chars = rng.sample(pool, rng.choice([1, 5, 60, 257, 400]))
        flaw = rng.random()
        if flaw < 0.15:
            chars.insert(rng.randrange(len(chars) + 1), rng.choice(chars))
        elif flaw < 0.25:
            chars.insert(rng.randrange(len(chars) + 1), BLANK)
        ty = rng.choice(["FAST-LOG-RAW"] * 5 + ["GREEDY"] * 2 + ["other", "missing"])
        cfg = {"type": ty, "beam": rng.choice([MISSING, BAD, 0, 1, 16, 300, 70000]), "scale": rng.choice([MISSING, BAD, 0, 1, 375, 1000, 12500]),
               "bonus": rng.choice([MISSING, BAD, -2250, 0, 125, 3000]), "lm": rng.random() < 0.5}
        yield {"kind": "factory", "cfg": cfg, "concrete": chars, "allow": rng.random() < 0.5,
               "render": {"type": rng.choice(["greedy", "LOG-RAW"]), "style": rng.randrange(3), "upper": rng.random() < 0.5, "extra": []}}


# ------------------------------------------------------------------------------------------------ TimeLogger
def exec_tlog(case):
    e = env()
    out = io.StringIO()
    rec = {"kind": "tlog", "loud": case["loud"], "ops": case["ops"], "obs": []}
    with contextlib.redirect_stdout(out):
        t = e["real_logger"](loud=case["loud"])
        for o in case["ops"]:
            oc = "ok"
            try:
                if o["op"] == "start":
                    t.log_line_start()
                elif o["op"] == "end":
                    t.log_line_end(o["n"])
                else:
                    t.print_final_stats()
            except Exception as ex:
                oc = type(ex).__name__
            ln, fr = counters(t)
            rec["obs"].append({"outcome": oc, "lines": ln, "frames": fr, "printed": len(out.getvalue().splitlines())})
    return rec


def tlog_cases(b):
    ops = [{"op": "start", "n": 0}, {"op": "final", "n": 0}] + [{"op": "end", "n": n} for n in range(b["MaxFr"] + 1)]
    for loud in (False, True):
        for k in range(b["MaxOps"] + 1):
            for seq in itertools.product(ops, repeat=k):
                yield {"kind": "tlog", "loud": loud, "ops": list(seq)}


def tlog_sampled(rng, n):
    for _ in range(n):
        ops = []
        for _ in range(rng.randrange(20, 60)):
            x = rng.random()
            ops.append({"op": "start", "n": 0} if x < 0.4 else {"op": "final", "n": 0} if x < 0.5 else
                       {"op": "end", "n": rng.choice([0, 1, 3, 255, 256, 1024, 70000])})
        yield {"kind": "tlog", "loud": rng.random() < 0.6, "ops": ops}


# ------------------------------------------------------------------------------------------------ decode_page
class Lenient:
    """the real decoder behind a guard: a line without frames is '' instead of the decoder's ValueError"""
    def __init__(self, dec):
        self.dec = dec

    def __call__(self, logits, **kw):
        if len(logits) == 0:
            from pero_ocr.decoding.bag_of_hypotheses import BagOfHypotheses
            bag = BagOfHypotheses()
            bag.add("", 0.0)
            return bag
        return self.dec(logits, **kw)


def decoder_for(nc):
    """one long-lived GreedyDecoder per worker process and alphabet size, built by the real decoder_factory"""
    e = env()
    if nc not in e["decoders"]:
        import torch
        cp = configparser.ConfigParser()
        cp["DECODER"] = {"TYPE": "GREEDY"}
        chars = [chr(ord("a") + i) for i in range(nc - 1)]
        with contextlib.redirect_stderr(io.StringIO()):
            dec = e["D"].decoder_factory(cp["DECODER"], chars, torch.device("cpu"))
        e["decoders"][nc] = (chars, dec, Lenient(dec))
    return e["decoders"][nc]


def sparse_line(line, nc, factor, fmt, dtype):
    import numpy as np
    import scipy.sparse as sp
    rows, cols, data = [], [], []
    for t, fr in enumerate(line):
        for c, code in enumerate(fr):
            if code != 0:                                  # 0: not stored; 1: stored and exactly 0.0; 10 + v: stored level v
                rows.append(t)
                cols.append(c)
                data.append(0.0 if code == 1 else (code - 10) * factor)
    m = (sp.csc_matrix if fmt == "csc" else sp.csr_matrix)(
        (np.array(data, dtype=dtype), (np.array(rows, dtype=np.int64), np.array(cols, dtype=np.int64))), shape=(len(line), nc))
    assert m.nnz == len(data)
    return m


def exec_decode(case):
    e = env()
    D = e["D"]
    nc = case["nc"]
    chars, dec, lenient = decoder_for(nc)
    r = case.get("render", {})
    rec = {"kind": "decode", "nc": nc, "calls": []}
    D.TimeLogger = e["spy"]
    try:
        for call in case["calls"]:
            page = [{it["label"]: sparse_line(it["line"], nc, r.get("factor", 1.0), r.get("fmt", "csc"), r.get("dtype", "float32"))
                     for it in par} for par in call["page"]]
            assert [len(p) for p in page] == [len(p) for p in call["page"]]
            del e["spy"].made[:]
            out = io.StringIO()
            oc, res = "ok", []
            try:
                with contextlib.redirect_stdout(out):
                    got = D.decode_page(page, dec if call["dkind"] == "greedy" else lenient, time_logging=call["loud"])
                for par in got:
                    res.append([{"label": lab, "text": [chars.index(ch) + 1 if ch in chars else 0 for ch in txt]} for lab, txt in par.items()])
            except Exception as ex:
                oc, res = type(ex).__name__, []
            ln, fr = counters(e["spy"].made[-1] if e["spy"].made else None)
            rec["calls"].append({"page": call["page"], "loud": call["loud"], "dkind": call["dkind"], "outcome": oc, "res": res,
                                 "lines": ln, "frames": fr, "printed": len(out.getvalue().splitlines())})
    finally:
        D.TimeLogger = e["real_logger"]
    return rec


def all_lines(b):
    entries = [0, 1] + sorted(b["LevelCodes"])
    frames = [list(f) for f in itertools.product(entries, repeat=b["NC"])]
    for t in range(b["MaxT"] + 1):
        for ln in itertools.product(frames, repeat=t):
            yield list(ln)


PALETTE = [[[11, 0, 0]], [[1, 9, 0], [11, 0, 0]], [], [[0, 0, 11]]]


def paragraphs(lines, labels=("x", "y")):
    yield []
    for a in labels:
        for l in lines:
            yield [{"label": a, "line": l}]
    for a in labels:
        for bb in labels:
            if a != bb:
                for l1 in lines:
                    for l2 in lines:
                        yield [{"label": a, "line": l1}, {"label": bb, "line": l2}]


def pages_of(lines, n):
    pars = list(paragraphs(lines))
    for m in range(n + 1):
        for pg in itertools.product(pars, repeat=m):
            yield list(pg)


def history_pages(npal):
    return [[], [[]]] + [[[{"label": "x", "line": l}]] for l in PALETTE[:npal]]


def render_decode(rng):
    return {"factor": rng.choice([0.5, 1.0, 2.0, 3.0]), "fmt": rng.choice(["csc", "csr"]), "dtype": rng.choice(["float32", "float64"])}


def decode_cases(b, rng):
    for ln in all_lines(b):
        for loud in b["lines_louds"]:
            for dk in b["lines_kinds"]:
                yield {"kind": "decode", "nc": b["NC"], "u": "lines", "render": render_decode(rng),
                       "calls": [{"page": [[{"label": "x", "line": ln}]], "loud": loud, "dkind": dk}]}
    for pg in pages_of(PALETTE[:b["NPal"]], b["MaxPars"]):
        for loud in (False, True):
            for dk in ("greedy", "lenient"):
                yield {"kind": "decode", "nc": 3, "u": "pages", "render": render_decode(rng), "calls": [{"page": pg, "loud": loud, "dkind": dk}]}
    variants = [{"page": pg, "loud": loud, "dkind": dk} for pg in history_pages(b["hist_npal"]) for loud in (False, True) for dk in ("greedy", "lenient")]
    for k in range(2, b["hist_calls"] + 1):
        for seq in itertools.product(variants, repeat=k):
            yield {"kind": "decode", "nc": 3, "u": "history", "render": render_decode(rng), "calls": [dict(c) for c in seq]}


def sampled_line(rng, nc, t):
    """mostly one clear arg-max per frame; at most two frames with a tie and one frame without any stored non-zero logit"""
    line, ties, empty = [], 0, 0
    for _ in range(t):
        x = rng.random()
        if x < 0.01 and empty < 1:
            empty += 1
            line.append([rng.choice([0, 1]) for _ in range(nc)])
            continue
        top = rng.randrange(5, 16)
        while top == 10:
            top = rng.randrange(5, 16)
        fr = [rng.choice([0, 0, 1] + [c for c in range(5, top) if c != 10]) for _ in range(nc)]
        fr[rng.randrange(nc) if rng.random() < 0.6 else nc - 1] = top
        if x > 0.995 and ties < 2:
            ties += 1
            fr[rng.randrange(nc)] = top
        line.append(fr)
    return line


def decode_sampled(rng, n):
    for _ in range(n):
        nc = rng.choice([2, 4, 6])
        labels = ["l%d" % i for i in range(12)]
        calls = []
        for _ in range(rng.randrange(1, 4)):
            page = []
            for _ in range(rng.randrange(0, 4)):
                labs = rng.sample(labels, rng.randrange(0, 7))
                page.append([{"label": a, "line": sampled_line(rng, nc, rng.choice([0, 1, 2, 3, 7, 30, 120] if rng.random() < 0.93 else [300, 700]))}
                             for a in labs])
            calls.append({"page": page, "loud": rng.random() < 0.5, "dkind": rng.choice(["greedy", "lenient"])})
        yield {"kind": "decode", "nc": nc, "u": "sampled", "render": render_decode(rng), "calls": calls}


# ------------------------------------------------------------------------------------------------ transcription_io
LETTERS = "abkzXQ019"
OTHERS_ASCII = "#\t_-./:;\x0b\x0c\x1c"
OTHERS_WIDE = "éř　\x85 中\U0001f600"


def utf8_locale():
    import locale
    try:
        return (locale.getpreferredencoding(False) or "").lower().replace("-", "") in ("utf8", "utf8mode")
    except Exception:
        return False


def concrete(classes, pick):
    return "".join(" " if c == "s" else "\n" if c == "n" else pick(c) for c in classes)


def classes_of(s):
    out = []
    for ch in s:
        out.append("s" if ch == " " else "n" if ch == "\n" else "l" if ch in LETTERS else "o" if ch in OTHERS_ASCII + OTHERS_WIDE else "?")
    return out


def exec_tio(case):
    e = env()
    TIO = e["TIO"]
    if e["tmp"] is None:
        e["tmp"] = os.path.join(case["workdir"], "tio_%d" % os.getpid())
        os.makedirs(e["tmp"], exist_ok=True)
    r = case["render"]
    # one concrete character per class and case: strings that are equal as class sequences must be equal as strings
    pick = lambda c: r["letter"] if c == "l" else r["other"]                       # noqa: E731
    mode, emb = case["mode"], case["emb"]
    rec = {"kind": "tio", "mode": mode, "emb": emb, "d": case["d"], "file": case["file"], "outcome": "ok", "loaded": [], "errline": 99,
           "saved": [], "parsed": {"key": [], "emb": [], "embnone": not emb, "text": []}}
    path = os.path.join(e["tmp"], r.get("fname", "transcriptions.txt"))
    try:
        if mode == "parse":
            key, em, text = TIO.parse_transcription_line(concrete(case["file"], pick), emb)
            rec["parsed"] = {"key": classes_of(key), "emb": classes_of(em or ""), "embnone": em is None, "text": classes_of(text)}
            return rec
        if mode == "roundtrip":
            d = {}
            for k, v in case["d"]:
                d[concrete(k, pick)] = concrete(v, pick)
            assert len(d) == len(case["d"])
            if os.path.exists(path):
                os.remove(path)
            TIO.save_transcriptions(path, d)
            with open(path, "rb") as fh:
                rec["saved"] = classes_of(fh.read().decode("utf-8"))
        else:
            with open(path, "w", encoding="utf-8", newline="") as fh:
                fh.write(concrete(case["file"], pick))
        got = TIO.load_transcriptions(path, emb)
        rec["loaded"] = [[classes_of(k), classes_of(v)] for k, v in got.items()]
    except Exception as ex:
        rec["outcome"] = type(ex).__name__
        m = re.search(r"line (\d+)", str(ex))
        if m and int(m.group(1)) < 99:
            rec["errline"] = int(m.group(1))
    return rec


def strs(n, alphabet="lsno"):
    for m in range(n + 1):
        for s in itertools.product(alphabet, repeat=m):
            yield list(s)


def tio_cases(b, rng, workdir, wide):
    others = OTHERS_ASCII + (OTHERS_WIDE if wide else "")

    def rend():
        return {"letter": rng.choice(LETTERS), "other": rng.choice(others),
                "fname": rng.choice(["transcriptions.txt", "t r.txt", "x"])}
    k1, v1, k2, v2 = (list(strs(b[x])) for x in ("K1", "V1", "K2", "V2"))
    for emb in (False, True):
        dicts = [[]] + [[[k, v]] for k in k1 for v in v1] + [[[ka, va], [kb, vb]] for ka in k2 for va in v2 for kb in k2 for vb in v2 if ka != kb]
        for d in dicts:
            yield {"kind": "tio", "mode": "roundtrip", "emb": emb, "d": d, "file": [], "render": rend(), "workdir": workdir}
        for f in strs(b["MaxFile"]):
            yield {"kind": "tio", "mode": "load", "emb": emb, "d": [], "file": f, "render": rend(), "workdir": workdir}
        for f in strs(b["MaxLine"]):
            yield {"kind": "tio", "mode": "parse", "emb": emb, "d": [], "file": f, "render": rend(), "workdir": workdir}


def tio_sampled(rng, n, workdir, wide):
    others = OTHERS_ASCII + (OTHERS_WIDE if wide else "")

    def word(lo, hi, alphabet):
        return [rng.choice(alphabet) for _ in range(rng.randrange(lo, hi))]
    for i in range(n):
        emb = rng.random() < 0.4
        clean = rng.random() < 0.6
        rend = {"letter": rng.choice(LETTERS), "other": rng.choice(others), "fname": "big.txt"}
        if i % 2 == 0:
            d, seen = [], set()
            for _ in range(rng.randrange(1, 30)):
                k = word(0, 8, "llo" if clean else "lloosn")
                v = (word(0, 6, "lo") + ["s"] if emb and clean else []) + word(0, 40, "lllos" if clean else "lllosn")
                if tuple(k) not in seen:
                    seen.add(tuple(k))
                    d.append([k, v])
            yield {"kind": "tio", "mode": "roundtrip", "emb": emb, "d": d, "file": [], "render": rend, "workdir": workdir}
        else:
            f = []
            keys = [word(1, 5, "lo") for _ in range(6)]
            for _ in range(rng.randrange(1, 25)):
                f += rng.choice(keys) + ["s"] + (word(0, 5, "lo") + ["s"] if emb else []) + word(0, 30, "llllos") + ["n"]
                if not clean and rng.random() < 0.1:
                    f += rng.choice([["n"], word(1, 4, "lo") + ["n"], ["s", "n"]])
            if rng.random() < 0.4:
                f = f[:-1]
            yield {"kind": "tio", "mode": "load", "emb": emb, "d": [], "file": f, "render": rend, "workdir": workdir}


# ===================================================================================================================
EXEC = {"factory": exec_factory, "tlog": exec_tlog, "decode": exec_decode, "tio": exec_tio}


def execute(case):
    rec = EXEC[case["kind"]](case)
    return rec


def nontrivial(tr):
    k = tr["kind"]
    if k == "factory":
        return tr["outcome"] == "ok"
    if k == "tlog":
        return any(o["outcome"] != "ok" or o["printed"] for o in tr["obs"])
    if k == "decode":
        return any(c["outcome"] == "ok" and any(c["res"]) for c in tr["calls"])
    return tr["outcome"] == "ok" and bool(tr["loaded"] or tr["mode"] == "parse")


def design_runs(ctx, b):
    """(label, kwargs) of every TLC run on the design: main runs (intended behaviour, all invariants + liveness, coverage) and
    the must-violate runs of the code as it is today"""
    small = dict(b, MaxOps=3, K1=1, V1=1, K2=0, V2=0, MaxFile=3, MaxLine=2, MaxPars=1, NPal=3, NCharLists=2, BeamVals={1}, ScaleVals={500},
                 BonusVals={0})
    main = [
        ("factory", dict(constants=consts(b, False), invariants=F_INV, properties=["F_Terminates"], spec="F_Spec")),
        ("timelogger", dict(constants=consts(b, False), invariants=L_INV, properties=["L_Terminates"], spec="L_Spec")),
        ("decode lines", dict(constants=consts(b, False, "lines", b["lines_louds"], kinds=b["lines_kinds"]), invariants=D_INV,
                              properties=["D_Terminates"], spec="D_SpecSingle")),
        ("decode pages", dict(constants=consts(b, False, "pages"), invariants=D_INV, properties=["D_Terminates"], spec="D_SpecSingle")),
        ("decode histories", dict(constants=consts(b, False, "history", calls=b["hist_calls"], npal=b["hist_npal"]), invariants=D_INV + ["D_ZeroConvention"],
                                  properties=["D_Terminates"], spec="D_Spec")),
        ("transcription_io", dict(constants=consts(b, False), invariants=T_INV, properties=["T_Terminates"], spec="T_Spec")),
    ]
    legacy = [
        ("factory legacy (KeyError for a section without TYPE)",
         dict(constants=consts(small, True), invariants=F_INV, spec="F_Spec", expect_violation="F_OnlyDocumentedErrors")),
        ("timelogger legacy (ZeroDivisionError / AttributeError)",
         dict(constants=consts(small, True), invariants=L_INV, spec="L_Spec", expect_violation="L_OnlyDocumentedErrors")),
        ("decode legacy (ZeroDivisionError of the loud statistics)",
         dict(constants=consts(small, True, "pages"), invariants=D_INV, spec="D_SpecSingle", expect_violation="D_OnlyDocumentedErrors")),
        ("transcription_io legacy (IndexError on an empty last transcription)",
         dict(constants=consts(small, True), invariants=["T_OnlyDocumentedErrors"], spec="T_Spec", expect_violation="T_OnlyDocumentedErrors")),
        ("transcription_io legacy (a blank line is refused)",
         dict(constants=consts(small, True), invariants=["T_BlankLinesIgnored"], spec="T_Spec", expect_violation="T_BlankLinesIgnored")),
    ]
    return main, legacy


def run(ctx):
    global TRACE_CONSTS
    b = bounds(ctx.tier)
    TRACE_CONSTS = consts(bounds("quick"), True)
    ctx.rule = ("decoder_factory: every section (TYPE x BEAM_SIZE x LM_SCALE x INSERTION_BONUS x LM) x 6 character lists x allow_no_decoder; "
                "TimeLogger: every call sequence of <= %d calls; decode_page: every line of <= %d frames over %d classes with entries "
                "{pruned, stored 0.0, -1, +1}, every page of <= %d paragraphs x <= 2 labels over a palette of %d lines, every history of "
                "<= %d calls over %d call variants; transcription_io: every dictionary of 1 entry (key <= %d, value <= %d) or 2 entries "
                "(<= %d, <= %d), every file content of <= %d symbols, every line of <= %d symbols, with and without embeddings; "
                "+ %d seeded larger cases per part; non-trivial = the call returned something"
                % (b["MaxOps"], b["MaxT"], b["NC"], b["MaxPars"], b["NPal"], b["hist_calls"], 4 * (2 + b["hist_npal"]), b["K1"], b["V1"], b["K2"], b["V2"], b["MaxFile"],
                   b["MaxLine"], b["sampled"]))
    ctx.exhaustive = True
    wide = utf8_locale()
    if not wide:
        ctx.assume("the locale's preferred encoding is not UTF-8: non-ASCII characters are left out of the transcription_io cases "
                   "(load_transcriptions opens the file without an encoding while save_transcriptions writes UTF-8)")
    ctx.assume("the language-model file named by LM = <path> is replaced by a stub loader (a trained model would be needed)")

    # ---------------------------------------------------------------- the real code (before any thread is started: pmap forks)
    rng = random.Random(7000 + ctx.seed)
    n = b["sampled"]
    cs = list(factory_cases(b, rng)) + list(factory_sampled(rng, n))
    cs += list(tlog_cases(b)) + list(tlog_sampled(rng, n))
    cs += list(decode_cases(b, rng)) + list(decode_sampled(rng, max(12, n // 3)))
    cs += list(tio_cases(b, rng, ctx.workdir, wide)) + list(tio_sampled(rng, n, ctx.workdir, wide))
    env()
    execute(cs[0])
    traces = pmap(execute, cs, procs=6)

    # ---------------------------------------------------------------- TLC on the design (threads) while TLC validates the traces
    main, legacy = design_runs(ctx, b)
    pool = concurrent.futures.ThreadPoolExecutor(max_workers=2)
    futs = [(lab, kw, pool.submit(ctx.tlc, "DecodeTool", workers=2, label=lab, count=False, **kw)) for lab, kw in main + legacy]
    rej_all = []
    base_validated = ctx.traces_validated

    def validate_kinds(kinds, shards):
        out = []
        for kind in kinds:
            idx = [i for i, t in enumerate(traces) if t["kind"] == kind]
            random.Random(5).shuffle(idx)          # spread the large sampled traces over the shards
            acc, rej = ctx.validate("DecodeTool_Trace", [traces[i] for i in idx], constants=TRACE_CONSTS,
                                    shards=min(shards, max(1, len(idx) // 300)), label="DecodeTool_Trace " + kind)
            out.append((acc, [(idx[j], prog) for j, prog in rej]))
        return out
    vpool = concurrent.futures.ThreadPoolExecutor(max_workers=2)
    try:
        # two streams of trace validation side by side: the decode histories (the most states) | the three other parts
        streams = [vpool.submit(validate_kinds, ("decode",), 6), vpool.submit(validate_kinds, ("factory", "tlog", "tio"), 4)]
        accepted = 0
        for st in streams:
            for acc, rej in st.result():
                accepted += acc
                rej_all += rej
        vpool.shutdown(wait=True)
        ctx.traces_validated = base_validated + accepted        # set once here: the two streams must not race on the counter
        rej_all.sort()
        for lab, kw, f in futs:
            res = f.result()
            if "expect_violation" not in kw:
                ctx.states += res["distinct"]
                ctx.transitions += res["generated"]
    finally:
        vpool.shutdown(wait=True, cancel_futures=True)
        pool.shutdown(wait=True, cancel_futures=True)

    for tr in traces:
        ctx.count(1, repr(tr)[:400] + str(hash(repr(tr))) if nontrivial(tr) else None)
    for kind in ("factory", "tlog", "decode", "tio"):
        ctx.sample(next(t for t in traces if t["kind"] == kind and nontrivial(t)))
    ctx.notes["executions_by_part"] = {k: sum(1 for t in traces if t["kind"] == k) for k in ("factory", "tlog", "decode", "tio")}
    outcomes = set()
    for t in traces:
        outcomes |= {t["outcome"]} if "outcome" in t else {c["outcome"] for c in t.get("calls", [])} | {o["outcome"] for o in t.get("obs", [])}
    ctx.notes["outcomes"] = sorted(outcomes)

    for n_rej, (idx, prog) in enumerate(rej_all):
        tr = traces[idx]
        if n_rej < 25:
            print("DECODETOOL-MISMATCH part=%s stage=%d case=%s" % (tr["kind"], prog, _short(tr)))
        elif n_rej == 25:
            print("DECODETOOL-MISMATCH ... and %d more rejected executions (by part: %s)" % (
                len(rej_all) - 25, {k: sum(1 for i, _ in rej_all if traces[i]["kind"] == k) for k in ("factory", "tlog", "decode", "tio")}))
        ctx.violations.append({"signature": "decodetool:" + tr["kind"], "what": "run is not a behaviour of DecodeTool.tla", "replay": None})
        if len([v for v in ctx.violations]) <= 3:
            _write_replay(ctx, cs[idx])
    # binding self-test on an execution that was accepted: the two labels of its first paragraph swap their transcriptions
    rejected = {i for i, _ in rej_all}
    good = next((t for i, t in enumerate(traces) if i not in rejected and t["kind"] == "decode" and len(t["calls"][0]["res"]) == 2
                 and len(t["calls"][0]["res"][0]) == 2 and t["calls"][0]["res"][0][0]["text"] != t["calls"][0]["res"][0][1]["text"]), None)

    def corrupt(t):
        a, c = t["calls"][0]["res"][0]
        a["text"], c["text"] = c["text"], a["text"]
        return t
    if good is not None:
        ctx.selftest_corrupt("DecodeTool_Trace", good, corrupt, constants=TRACE_CONSTS)
    elif not rej_all:
        from ..core import MachineryFailure
        raise MachineryFailure("no accepted decode_page execution with two differently transcribed labels for the binding self-test")

    for r in ctx.tlc_runs:
        print("DECODETOOL tlc %-75s %s distinct=%d wall=%.1fs%s" % (
            r["label"], r["mode"], r["distinct"], r["wall_s"],
            (" traces=%d accepted=%d" % (r["traces"], r["accepted"])) if r["mode"] == "trace-validation" else
            (" must-violate=%s" % r["expected_violation"]) if "expected_violation" in r else ""))
    ctx.notes["explanation"] = ("TLC on the four machines of DecodeTool.tla (intended behaviour) + five must-violate runs (code as it is "
                                "today); every initial state / call sequence of the same bounds and seeded larger cases executed on the "
                                "real decoder_factory, TimeLogger, decode_page (real GreedyDecoder, real scipy sparse logits), "
                                "save/load_transcriptions and parse_transcription_line; validated by DecodeTool_Trace with Legacy=TRUE")


def _short(tr):
    s = repr({k: v for k, v in tr.items() if k != "kind"})
    return s if len(s) < 1500 else s[:1500] + "...(%d chars)" % len(s)


def _write_replay(ctx, case):
    import hashlib
    import json
    from ..core import OUT_DIR
    os.makedirs(os.path.join(OUT_DIR, ctx.prop), exist_ok=True)
    c = dict(case)
    c.pop("workdir", None)
    h = hashlib.sha1(json.dumps(c, sort_keys=True).encode()).hexdigest()[:10]
    path = os.path.join(OUT_DIR, ctx.prop, "%s-%s-%s.json" % (ctx.tier, ctx.seed, h))
    with open(path, "w") as fh:
        json.dump({"property": ctx.prop, "case": c}, fh)
    print("  replay=%s" % path)


def replay(ctx, case):
    case = dict(case, workdir=ctx.workdir)
    tr = execute(case)
    acc, rej = ctx.validate("DecodeTool_Trace", [tr], constants=consts(bounds("quick"), True))
    if rej:
        print("DECODETOOL-MISMATCH", _short(tr))
        ctx.violations.append({"signature": "decodetool:" + tr["kind"], "what": "mismatch", "replay": None})
