--------------------------- MODULE Cropper_Trace ---------------------------
(* Trace layer for Cropper (C10): one recorded call of the real EngineLineCropper.crop() per trace.

   Recorded by the driver (harness/cropper_common.py) around the real code, no change to /repo:
     pts, asc, desc, H, poly, sc, page      the input (signed integers; page = kind + size + content offset)
     outcome                                 "ok" | "exception:<class>"  (what crop() itself did)
     ev.inp  "ok" | "raise"                  get_crop_inputs returned / raised
     ev.cwin                                 width of the coordinate grid it returned (0 when it raised)
     ev.path "fast" | "general" | "raise" | "skipped"   which cv2.remap call fast_remap made (sub-image or whole page)
     ev.kind "real" | "blank",  ev.h, ev.w   the returned array
     px                                      channel 0 of the returned crop (rows of integers), [] when not recorded
     ref                                     for "same pixels" pairs: the crop of the base configuration, [] otherwise
     corners                                 the four corners of the coordinate grid get_crop_inputs returned, <<top-left, top-right,
                                             bottom-left, bottom-right>>, each <<x, y>> in 1/16 px; <<>> when it raised / was not seen

     env, hk, call, hafter                   round 9 (information for the report, not read by the clauses): numeric environment of the
                                             host process during the call ("default" | "fperr" = np.seterr(all = "raise") | "warnerr" =
                                             warnings as errors; the strict ones are recorded for spaces of degenerate lines only, Env =
                                             "strict", where the clause "never an exception, configured height" is all that is claimed),
                                             container type of the heights, number of the crop of the SAME line (repeat sessions: the caller
                                             keeps the heights object / TextLine and crops again; asc, desc stay the line's heights as the
                                             caller set them, ref = the first crop of the line), the heights the caller holds afterwards

   Besides the configurations TLC enumerates (Cropper!Init) the driver records SESSIONS: sampled baselines - among them dense ones
   of 65 .. some thousand points, far beyond the 2..5 points of the enumerated spaces - cropped by long-lived cropper objects of
   several configurations one after the other (also right after a call that fails).  Nothing of their verdict is computed in
   Python: the points themselves are in the trace and the operators below (Degenerate, WidthOK, EndsClause) are evaluated by TLC
   on them; only the enumeration is replaced by sampling (Isqrt of Cropper covers chords up to 46340 px for that purpose).

   Level = "property": acceptance = the statement of C10 restricted to what is modelled (never an exception, height,
   blank => degenerate, width clause, pixel clauses of the grid family at sample positions inside the page, equality
   with the reference crop within Tol grey levels).  Level = "exact": additionally the detailed grid model (exact width,
   branch of fast_remap, zeros outside the page, 1-px column positions); a trace accepted at property level and
   rejected at exact level is MODEL-DRIFT, not a violation.                                                      *)
EXTENDS Cropper, TraceKit
CONSTANTS Level, Tol
VARIABLES tid, clause
tvars == <<tid, clause>>

Tr == Traces[tid]
PX == Tr.px
HasPx == Len(Tr.px) > 0
HasRef == Len(Tr.ref) > 0

TInit == /\ tid \in 1..NTraces
         /\ pts = [i \in 1..Len(Traces[tid].pts) |-> <<Traces[tid].pts[i][1], Traces[tid].pts[i][2]>>]
         /\ asc = Traces[tid].asc /\ desc = Traces[tid].desc /\ H = Traces[tid].H
         /\ poly = Traces[tid].poly /\ sc = Traces[tid].sc
         /\ page = [kind |-> Traces[tid].page.kind, h |-> Traces[tid].page.h, w |-> Traces[tid].page.w,
                    ox |-> Traces[tid].page.ox, oy |-> Traces[tid].page.oy]
         /\ pc = "start" /\ inp = "none" /\ path = "none" /\ kind = "none" /\ ch = 0 /\ cw = 0
         /\ clause = 0

\* ---------------------------------------------------------------- pixel clauses (evaluated on the final state)
W == Tr.ev.w
IsGrid == page.kind \in {"rows", "cols"} /\ GridLine
RowInPage(r) == SampleY(r) >= 0 /\ SampleY(r) <= page.h - 1
\* column whose ideal sample abscissa lies inside the page content with a 1-px margin on each side
ColSafe(c) == /\ IdealXNum(c, W) >= ((IF page.ox > 0 THEN page.ox ELSE 0) + 1) * XDen(W)
              /\ IdealXNum(c, W) <= (page.w - 2) * XDen(W)
ShapeOK == Len(PX) = Tr.ev.h /\ \A r \in 1..Len(PX) : Len(PX[r]) = W
\* page constant along x: every crop row is the page row the statement names (rows run linearly from the ascender
\* height above the baseline to the descender height below it)
RowsClause == \A r \in 0..(H - 1) : RowInPage(r) =>
                 \A c \in 0..(W - 1) : ColSafe(c) => PX[r + 1][c + 1] = Val("rows", 1, SampleY(r) - page.oy)
\* page = ramp along x: columns advance uniformly from the first to the last point (2 px tolerance: the code's last
\* sample is one pixel short of the last point for polynomial fits, plus interpolation rounding)
ColsClause(num(_, _), tolpx) ==
    \A r \in 0..(H - 1) : (RowInPage(r) /\ SampleY(r) >= page.oy) =>
       \A c \in 0..(W - 1) : ColSafe(c) =>
           Abs(PX[r + 1][c + 1] * XDen(W) - (num(c, W) - page.ox * XDen(W))) <= tolpx * XDen(W)
\* same pixels as the reference configuration (shifted together / partly outside the page)
RefClause == /\ Len(Tr.ref) = Len(PX)
             /\ \A r \in 1..Len(PX) : /\ Len(Tr.ref[r]) = Len(PX[r])
                                      /\ \A c \in 1..Len(PX[r]) : Abs(PX[r][c] - Tr.ref[r][c]) <= Tol
(* "columns advance uniformly along the baseline from its FIRST to its LAST point": the first / last column of the coordinate
   grid.  Rows run linearly from asc above to desc below the baseline, so the baseline point of a column is
   (desc * top + asc * bottom) / (asc + desc)  (integer division: 1/16 px).  Measured ALONG the chord (the fitted curve may leave
   the end points sideways - a straight fit of a curved baseline - which the statement does not exclude): the real code ends at most
   1 px before the last point (integer steps of np.arange), tolerance EndTol = 3 px; a position more than 1000 px from the end
   point in x or y fails outright (which also keeps the products below 2^31).                                              *)
EndTol == 3
HasCorners == Len(Tr.corners) = 4
BaseAt(top, bot) == <<(desc * top[1] + asc * bot[1]) \div HS, (desc * top[2] + asc * bot[2]) \div HS>>
EndOK(e, P) == LET ddx == e[1] - 16 * P[1]
                   ddy == e[2] - 16 * P[2]
               IN /\ Abs(ddx) <= 16 * 1000 /\ Abs(ddy) <= 16 * 1000
                  /\ Abs(ddx * DX + ddy * DY) <= 16 * EndTol * (Chord + 1)
EndsClause == /\ EndOK(BaseAt(Tr.corners[1], Tr.corners[3]), First)
              /\ EndOK(BaseAt(Tr.corners[2], Tr.corners[4]), Last)
(* "rows run linearly from the ascender height above the baseline (first row) to the descender height below it (last row),
   perpendicular to it", heights scaled by LINE_SCALE: the first and the last row of the coordinate grid are (asc + desc) * sc / 10 px
   apart, at the first and at the last column (unit normals: exact in the code up to float32 round-off ~1e-3 px; the recorded corners
   are rounded to 1/16 px).  Tolerance BandTol = 1 px.  asc / desc are the heights of the LINE as the caller set them: a line that is
   cropped a second time (repeat sessions) must again be sampled over that band.  Corners more than 1000 px apart fail outright
   (keeps the squares below 2^31).                                                                                             *)
BandTol == 1
BandOK(t, b) == LET ddx == t[1] - b[1]
                    ddy == t[2] - b[2]
                IN /\ Abs(ddx) <= 16 * 1000 /\ Abs(ddy) <= 16 * 1000
                   /\ Abs(10 * Isqrt(ddx * ddx + ddy * ddy) - 16 * HS * sc) <= 10 * 16 * BandTol + 10
BandClause == BandOK(Tr.corners[1], Tr.corners[3]) /\ BandOK(Tr.corners[2], Tr.corners[4])
\* detailed grid model
ExactWidth == W \in Widths
ExactPath == IF NeedsGeneral THEN Tr.ev.path = "general" ELSE (Tr.ev.path = "fast" \/ Touches)
ExactOutside == page.kind = "rows" =>
                   \A r \in 0..(H - 1) : ~RowInPage(r) => \A c \in 0..(W - 1) : PX[r + 1][c + 1] = 0

\* number of the first failing clause of the returned crop (0 = none)
FirstFailing ==
    IF Tr.ev.h # ch' THEN 1                                                   \* height = configured
    ELSE IF kind' = "real" /\ Tr.ev.w # cw' THEN 2                            \* a real crop is as wide as its coordinate grid
                                                                              \* (width of the blank fallback: not in the statement)
    ELSE IF HasPx /\ ~ShapeOK THEN 3
    ELSE IF HasPx /\ kind' = "real" /\ IsGrid /\ ~Degenerate /\ page.kind = "rows" /\ ~RowsClause THEN 4
    ELSE IF HasPx /\ kind' = "real" /\ IsGrid /\ ~Degenerate /\ page.kind = "cols" /\ ~ColsClause(IdealXNum, 2) THEN 5
    ELSE IF HasPx /\ HasRef /\ ~RefClause THEN 6
    ELSE IF HasCorners /\ kind' = "real" /\ ~Degenerate /\ ~EndsClause THEN 11   \* band starts / ends at the first / last point
    ELSE IF HasCorners /\ kind' = "real" /\ ~Degenerate /\ ~BandClause THEN 12   \* band is (asc + desc) * scale high
    ELSE IF Level = "exact" /\ kind' = "real" /\ IsGrid /\ ~Degenerate /\ ~ExactWidth THEN 7
    ELSE IF Level = "exact" /\ kind' = "real" /\ IsGrid /\ ~Degenerate /\ ~ExactPath THEN 8
    ELSE IF Level = "exact" /\ HasPx /\ kind' = "real" /\ IsGrid /\ ~Degenerate /\ ~ExactOutside THEN 9
    ELSE IF Level = "exact" /\ HasPx /\ kind' = "real" /\ IsGrid /\ ~Degenerate /\ page.kind = "cols"
            /\ ~ColsClause(SampleXNum, 1) THEN 10
    ELSE 0

TNext == /\ Tr.outcome = "ok"                     \* crop() never lets an exception escape
         /\ UNCHANGED tid
         /\ \/ /\ Tr.ev.inp = "ok" /\ InputsOkW(Tr.ev.cwin) /\ UNCHANGED clause
            \/ /\ Tr.ev.inp = "raise" /\ InputsRaise /\ UNCHANGED clause
            \/ /\ Tr.ev.path \in {"fast", "general"} /\ RemapTo(Tr.ev.path) /\ UNCHANGED clause
            \/ /\ Tr.ev.path = "raise" /\ RemapRaise /\ UNCHANGED clause
            \/ /\ Tr.ev.path = "skipped" /\ RemapSkipped /\ UNCHANGED clause
            \/ /\ Result /\ kind' = Tr.ev.kind
               /\ clause' = FirstFailing

Steps == CASE pc = "start" -> 0 [] pc = "inputs" -> 1 [] pc = "remap" -> 2 [] OTHER -> 10 + clause
TAccept == TKMark(tid, Steps, pc = "done" /\ clause = 0)
TPost == TKPost
ASSUME TKReset
=============================================================================
