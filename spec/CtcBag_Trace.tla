--------------------------- MODULE CtcBag_Trace ---------------------------
(* Trace layer for the LIFE of the bag of hypotheses a decode with a language model hands on (C03, clause "the transcript
   handed on is the returned hypothesis maximising visual score + LM scale x LM score, so scale 0 reproduces LM-free
   decoding, and it is the hypothesis whose posterior the bag reports as its confidence").

   CtcDecoder has no state across calls and judges a bag once, right after the decode.  The real bag is a long-lived object
   with a public LM scale (lm_weight, "the LM scale archived with the hypotheses") and public add() / sort(): callers query
   it, re-weight it with another scale of the scope ([0, 3]; 0 = LM-free scoring), query it again, fill a bag of their own
   from the returned hypotheses, sort it, query it again.  A recorded execution is

     mat, frames[T] (the final beam as in CtcDecoder_Trace, masses in thousandths), outcome,
     life = sequence of queries, each made after one more operation on a long-lived bag:
        [o       |-> "ok" or "exception:...",
         sp, sq  |-> the LM scale sp / sq the bag carries at the time of the query,
         members |-> the transcripts the bag holds at the time of the query (a hand-filled bag may hold only some so far),
         best    |-> best_hyp(),
         confset |-> the transcripts whose posterior (as the bag reports it NOW) equals confidence(),
         conf    |-> confidence() in thousandths,  tconf |-> transcript_confidence(best_hyp()) in thousandths]

   It is accepted iff mat -> Frame^T -> Finish is a behaviour of CtcDecoder whose final beam is the recorded one and EVERY
   query of the life agrees with that beam under the scale of the moment (clauses L1..L5).  The scale of the moment is not
   the constant SP / SQ of the decode, hence TotalW below takes it as an argument; the LM-free reading is sp = 0.        *)
EXTENDS CtcDecoder, TraceKit
VARIABLES tid, bad

Tr == Traces[tid]

TInit == /\ tid \in 1..NTraces
         /\ mat = [i \in 1..T |-> [c \in Syms |-> Traces[tid].mat[i][c + 1]]]
         /\ t = 0 /\ phase = "run"
         /\ beam = (<<>> :> <<1, 0, 1>>)
         /\ bad = 0

Final == Tr.frames[1]
ObsSet == {<<Final[j].p, Final[j].s, Final[j].l>> : j \in 1..Len(Final)}
MatchesFinal(b) == /\ Cardinality({Final[j].p : j \in 1..Len(Final)}) = Len(Final)
                   /\ ObsSet = {<<q, 1000 * (b[q][1] + b[q][2]), 1000 * b[q][3]>> : q \in DOMAIN b}

\* order-preserving integer image of vis * lm^(sp/sq) (CtcDecoder!Total with the scale as an argument)
TotalW(b, q, sp, sq) == Pow(Vis(b, q), sq) * Pow(b[q][3] * Pow(M, T - Len(q)), sp)
SeqSet(s) == {s[j] : j \in 1..Len(s)}
Abs(x) == IF x < 0 THEN 0 - x ELSE x
SumOver(S, f(_)) == FoldSet(LAMBDA q, acc : acc + f(q), 0, S)

\* L1: the query answered, about hypotheses of the decode, under a scale of the scope
L1(b, st) == /\ st.o = "ok" /\ st.sq \in 1..2 /\ st.sp \in 0..3 /\ st.sp <= 3 * st.sq
             /\ SeqSet(st.members) # {} /\ SeqSet(st.members) \subseteq DOMAIN b
             /\ Cardinality(SeqSet(st.members)) = Len(st.members)
\* L2: the transcript handed on maximises vis + scale * lm over what the bag holds, under the scale the bag carries NOW
L2(b, st) == LET Ms == SeqSet(st.members) IN
             st.best \in {q \in Ms : \A o \in Ms : TotalW(b, q, st.sp, st.sq) >= TotalW(b, o, st.sp, st.sq)}
\* L3: ... and it is the hypothesis whose posterior the bag reports as its confidence
L3(b, st) == st.best \in SeqSet(st.confset)
\* L4: for the scales 0 and 1 the posterior is a ratio of integers TLC computes exactly (vis * lm^sp over the sum of the
\*     same over the bag): the reported confidence is that posterior of the transcript handed on, to 2 thousandths
\*     (the recording rounds to one thousandth; products stay below 2^31: sum of vis <= D^T, lm <= (3 * Bonus)^T * 3)
Exact(st) == st.sq = 1 /\ st.sp <= 1
L4(b, st) == Exact(st) =>
             LET S == SumOver(SeqSet(st.members), LAMBDA q : TotalW(b, q, st.sp, 1)) IN
             /\ S > 0
             /\ Abs(st.conf * S - 1000 * TotalW(b, st.best, st.sp, 1)) <= 2 * S
\* L5: asking the bag for the confidence of the transcript it hands on gives the bag confidence
L5(b, st) == Abs(st.tconf - st.conf) <= 1

ClauseOf(b, st) == IF ~L1(b, st) THEN 1 ELSE IF ~L2(b, st) THEN 2 ELSE IF ~L3(b, st) THEN 3
                   ELSE IF ~L4(b, st) THEN 4 ELSE IF ~L5(b, st) THEN 5 ELSE 0
\* 10 * (number of the first query that contradicts the beam) + its first failing clause; 0 = the whole life agrees
FirstBad(b) == LET Bad == {j \in 1..Len(Tr.life) : ClauseOf(b, Tr.life[j]) # 0} IN
               IF Bad = {} THEN 0
               ELSE LET j == CHOOSE x \in Bad : \A y \in Bad : x <= y IN 10 * j + ClauseOf(b, Tr.life[j])

TNext == /\ UNCHANGED tid
         /\ \/ /\ Tr.outcome = "ok" /\ Frame /\ bad' = 0
            \/ /\ Tr.outcome = "ok" /\ Finish
               /\ MatchesFinal(beam')
               /\ bad' = FirstBad(beam')

\* progress: frames matched (0..T) while running; 100 + FirstBad once the final beam matched
TAccept == TKMark(tid, IF phase = "run" THEN t ELSE 100 + bad, phase = "done" /\ bad = 0)
TPost == TKPost
ASSUME TKReset
=============================================================================
