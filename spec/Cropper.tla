------------------------------ MODULE Cropper ------------------------------
(* C10 - line crops (pero_ocr/core/crop_engine.py, EngineLineCropper.crop), PARTIAL model.

   Only the discrete skeleton of the cropper is modelled (DESIGN.md section 4 C10 and section 5):

   (a) the control skeleton of crop():  Inputs (get_crop_inputs: ok | raises)  ->  Remap (fast_remap: sub-image
       path | whole-image path | raises)  ->  Result (real crop | blank fallback).  The line comes from a bounded
       configuration space of integer baselines (2..5 points, step vector, parabolic bump = mild curvature, partly
       outside the page, degenerate shapes included).  The repaired cropper fails only on degenerate lines;
       `Legacy = TRUE` adds the defect of the current tree: with poly = 0 and >= 4 points the cubic interpolant
       is evaluated 0.1 px past its last node exactly when the chord length L = sqrt(DX^2 + DY^2) has a fractional
       part >= 0.9 (integer test: (10*isqrt(S) + 9)^2 <= 100*S), the blanket except then returns a blank crop.

   (b) the exact-grid family (Family = "grid"): horizontal integer baselines, integer heights with
       (H - 1) | (asc + desc), scale 1, page constant along one axis.  There the crop is an integer function of
       the page: row r samples page row  yb - asc + r*(asc+desc)/(H-1),  column c samples abscissa
       x0 + c*ArcX/(w-1)  with  ArcX = DX (poly = 0: the last node is moved 0.1 px to the right, so arange() reaches it)
       or DX - 1 (polynomial fits), width w = floor(ArcX*H/(asc+desc)); fast_remap reads the same pixels through a
       sub-image whose offsets cancel.

   NOT modelled (continuous geometry / cv2.remap fixed-point interpolation): where the samples of slanted or curved
   baselines fall, pixel values at fractional positions.  See notes/C10.md.

   Signed quantities of the configuration space are passed as naturals shifted by Off (cfg files have no
   negative literals).                                                                                        *)
EXTENDS Integers, Sequences, FiniteSets, TLC

CONSTANTS Family,          \* "slant" | "grid"
          Legacy,          \* TRUE: the current tree's out-of-range evaluation of the cubic interpolant
          Mut,             \* "none" | "offsign" (sub-image offset added instead of subtracted: sharpness self-test)
          Off,             \* offset of signed configuration values
          Ns,              \* numbers of baseline points
          DXs,             \* per-step dx (naturals; 0 and 1 give degenerate baselines)
          DYs,             \* per-step dy + Off
          Curvs,           \* curvature c + Off: point i is lifted by c*i*(n-1-i)
          X0s, Y0s,        \* first point + Off
          Ascs, Descs, Hs, \* heights above / below the baseline, configured crop height
          Polys,           \* interpolation orders (0 = cubic spline, 1, 2 = polynomial fit)
          Scales,          \* LINE_SCALE numerators over 10 (8 = 0.8, 10 = 1, 15 = 1.5)
          PageH, PageW,    \* page size
          Kinds,           \* page contents: "smooth" (slant family), "rows", "cols" (grid family)
          Shifts,          \* grid family: content offsets sx = sy (0 = base page)
          Env              \* "default" | "strict": numeric environment of the hosting process.  "strict" = the lines of the space are
                           \* cropped while numpy raises on floating-point errors (np.seterr(all = "raise")) or warnings are errors; the
                           \* skeleton is the same (the fallback of crop() is unconditional: "never to an error"), but only the
                           \* FALLBACK clause is claimed there, so a strict space may hold degenerate lines only (StrictScope)

VARIABLES pts,     \* baseline: sequence of <<x, y>>
          asc, desc,
          H, poly, sc,
          page,    \* [kind, h, w, ox, oy]: size of the page and where its content origin lies
          pc,      \* "start" -> "inputs" -> "remap" -> "done"
          inp,     \* "none" | "ok" | "raise"
          path,    \* "none" | "fast" | "general" | "raise" | "skipped"
          kind,    \* "none" | "real" | "blank"
          ch, cw   \* shape of the returned crop
vars == <<pts, asc, desc, H, poly, sc, page, pc, inp, path, kind, ch, cw>>

Abs(a) == IF a < 0 THEN -a ELSE a
RECURSIVE IsqrtR(_, _, _)
IsqrtR(n, lo, hi) == IF lo >= hi THEN lo
                     ELSE LET mid == (lo + hi + 1) \div 2
                          IN IF mid * mid <= n THEN IsqrtR(n, mid, hi) ELSE IsqrtR(n, lo, mid - 1)
Isqrt(n) == IsqrtR(n, 0, 46340)         \* floor(sqrt(n)) for every n < 2^31 (46340^2 < 2^31: dense baselines of the trace layer)

\* ------------------------------------------------------------------ the line
N == Len(pts)
First == pts[1]
Last == pts[N]
DX == Last[1] - First[1]
DY == Last[2] - First[2]
S == DX * DX + DY * DY                  \* squared chord length
Chord == Isqrt(S)                       \* Chord <= L < Chord + 1
HS == asc + desc
\* segments: "well-separated points with slopes in (-60, 60) degrees"
SegDx(i) == pts[i+1][1] - pts[i][1]
SegDy(i) == pts[i+1][2] - pts[i][2]
WellSeparated == \A i \in 1..(N-1) : SegDx(i) >= 4 /\ SegDy(i) * SegDy(i) < 3 * SegDx(i) * SegDx(i)
Steep == DX <= 0 \/ DY * DY >= 3 * DX * DX
\* expected width below 2 px: L * H / (HS * scale) < 2   (with L >= Chord); scale = sc / 10
TooNarrow == Chord * H * 10 < 2 * HS * sc
(* Appendix D: "degenerate" = first/last point closer than 4 px after rotation, zero height, vertical (outside the
   slope range of the quantifier), points not well separated, or a line whose crop would be narrower than 2 px.
   The weakest reasonable reading: everything outside the quantifier of the statement may fall back.            *)
Degenerate == N < 2 \/ S < 16 \/ HS = 0 \/ Steep \/ ~WellSeparated \/ TooNarrow

FracHigh == LET k == Chord IN (10 * k + 9) * (10 * k + 9) <= 100 * S       \* frac(L) >= 0.9, exact
PerfectSquare == Chord * Chord = S
\* the defect of the current tree (crop_engine.py:66-70, 84-88)
LegacyMust == poly = 0 /\ N >= 4 /\ FracHigh
\* L an exact integer on a slanted line: round-off of the rotation decides on which side of the last node the sample falls
LegacyMay == poly = 0 /\ N >= 4 /\ PerfectSquare /\ DY # 0

\* upper bound of the polyline length (each segment rounded up)
RECURSIVE PolyUpTo(_)
PolyUpTo(i) == IF i = 0 THEN 0
               ELSE PolyUpTo(i - 1) + Isqrt(SegDx(i) * SegDx(i) + SegDy(i) * SegDy(i)) + 1
PolyUpper == PolyUpTo(N - 1)
(* Appendix D width clause  |w - L*H/(scaled height)| <= 2 + H/(scaled height)  with L between the chord and the
   polyline length (the code measures the arc of its interpolant on integer abscissae), in integers:
   multiply by HS*sc, scale factor = 10*H/(HS*sc).                                                              *)
WidthOK(w) == /\ w * HS * sc >= Chord * H * 10 - 2 * HS * sc - H * 10
              /\ w * HS * sc <= (PolyUpper + 1) * H * 10 + 2 * HS * sc + H * 10

\* ------------------------------------------------------------------ exact-grid family
Horizontal == \A i \in 1..N : pts[i][2] = First[2]
GridLine == Horizontal /\ sc = 10 /\ HS > 0 /\ H > 1 /\ HS % (H - 1) = 0 /\ DX > 0
X0 == First[1]
YB == First[2]
ArcX == IF poly = 0 THEN DX ELSE DX - 1           \* unit steps of np.arange(left, right)
\* int(arc * H / HS): when the quotient is an exact integer the float product may land just below it
Widths == LET num == ArcX * H
              q == num \div HS
          IN IF num % HS = 0 THEN {q - 1, q} ELSE {q}
RowStep == HS \div (H - 1)
SampleY(r) == YB - asc + r * RowStep              \* page row sampled by crop row r (0-based)
\* abscissa sampled by column c (0-based) of a crop of width w, as a numerator over (w - 1)
SampleXNum(c, w) == IF w = 1 THEN X0 ELSE X0 * (w - 1) + c * ArcX
\* the same for the ideal "first point to last point" reading of the statement
IdealXNum(c, w) == IF w = 1 THEN X0 ELSE X0 * (w - 1) + c * DX
XDen(w) == IF w = 1 THEN 1 ELSE w - 1

\* page contents: a formula of the content coordinates (the driver paints the same formula)
Val(k, x, y) == IF x < 0 \/ y < 0 THEN 0
                ELSE CASE k = "rows" -> ((y * 37 + 11) % 251) + 1
                       [] k = "cols" -> IF x <= 250 THEN x ELSE 0
                       [] OTHER -> 0
PixOf(pg, x, y) == IF x >= 0 /\ x < pg.w /\ y >= 0 /\ y < pg.h THEN Val(pg.kind, x - pg.ox, y - pg.oy) ELSE 0
Pix(x, y) == PixOf(page, x, y)

\* fast_remap: bounding box of the sample positions (integers on the grid family)
XMin == X0
XMax == X0 + ArcX
YMin == YB - asc
YMax == YB + desc
NeedsGeneral == XMin < 0 \/ YMin < 0 \/ XMax > page.w - 1 \/ YMax > page.h - 1
\* band exactly on the page border: round-off of the fitted baseline (1e-14) decides the comparison
Touches == XMin = 0 \/ YMin = 0 \/ XMax = page.w - 1 \/ YMax = page.h - 1
\* sub-image path: img[y_min:y_max+1, x_min:x_max+1] sampled at the shifted coordinates, zero outside the sub-image
SubPix(u, v) == IF u >= 0 /\ u <= XMax - XMin /\ v >= 0 /\ v <= YMax - YMin THEN Pix(u + XMin, v + YMin) ELSE 0
FastSample(x, y) == IF Mut = "offsign" THEN SubPix(x + XMin, y + YMin) ELSE SubPix(x - XMin, y - YMin)
GeneralSample(x, y) == Pix(x, y)
PathSample(x, y) == IF path = "fast" THEN FastSample(x, y) ELSE GeneralSample(x, y)

\* ------------------------------------------------------------------ configuration space
MkPts(n, x0, y0, dx, dy, c) == [i \in 1..n |-> <<x0 + (i - 1) * dx, y0 + (i - 1) * dy + c * (i - 1) * (n - i)>>]

Init == /\ \E n \in Ns, x0 \in X0s, y0 \in Y0s, dx \in DXs, dyv \in DYs, cv \in Curvs, k \in Kinds, sv \in Shifts :
              LET s == sv - Off IN          \* image and baseline are shifted together
              /\ pts = MkPts(n, x0 - Off + s, y0 - Off + s, dx, dyv - Off, cv - Off)
              /\ Family = "grid" => (dyv = Off /\ cv = Off)
              /\ page = [kind |-> k, h |-> PageH + s, w |-> PageW + s, ox |-> s, oy |-> s]
        /\ asc \in Ascs /\ desc \in Descs /\ H \in Hs /\ poly \in Polys /\ sc \in Scales
        /\ Family = "grid" => GridLine
        /\ pc = "start" /\ inp = "none" /\ path = "none" /\ kind = "none" /\ ch = 0 /\ cw = 0

\* ------------------------------------------------------------------ crop(): one action per call made by crop()
CanRaise == Degenerate \/ (Legacy /\ (LegacyMust \/ LegacyMay))
CanSucceed == Degenerate \/ ~(Legacy /\ LegacyMust)      \* (on degenerate lines the rotated abscissae need not be monotone)

\* get_crop_inputs returned a coordinate grid of width w
InputsOkW(w) == /\ pc = "start" /\ CanSucceed
                /\ Degenerate \/ WidthOK(w)
                /\ pc' = "inputs" /\ inp' = "ok" /\ cw' = w
                /\ UNCHANGED <<pts, asc, desc, H, poly, sc, page, path, kind, ch>>
WidthChoices == IF Degenerate THEN {1}
                ELSE IF Family = "grid" THEN Widths
                ELSE {(Chord * H * 10) \div (HS * sc)}          \* one representative of the admitted interval
InputsOk == \E w \in WidthChoices : InputsOkW(w)
InputsRaise == /\ pc = "start" /\ CanRaise
               /\ pc' = "inputs" /\ inp' = "raise"
               /\ UNCHANGED <<pts, asc, desc, H, poly, sc, page, path, kind, ch, cw>>

RemapTo(p) == /\ pc = "inputs" /\ inp = "ok"
              /\ pc' = "remap" /\ path' = p
              /\ UNCHANGED <<pts, asc, desc, H, poly, sc, page, inp, kind, ch, cw>>
\* which branch of fast_remap: decided on the grid family, free otherwise (the sample positions are not modelled)
RemapFast == RemapTo("fast") /\ ((Family = "grid" /\ ~Degenerate) => ~NeedsGeneral)
RemapGeneral == RemapTo("general") /\ ((Family = "grid" /\ ~Degenerate) => (NeedsGeneral \/ Touches))
RemapRaise == RemapTo("raise") /\ Degenerate            \* e.g. np.amin of an empty grid
RemapSkipped == /\ pc = "inputs" /\ inp = "raise"
                /\ pc' = "remap" /\ path' = "skipped"
                /\ UNCHANGED <<pts, asc, desc, H, poly, sc, page, inp, kind, ch, cw>>

Result == /\ pc = "remap"
          /\ pc' = "done"
          /\ IF path \in {"fast", "general"}
             THEN kind' = "real" /\ cw' = cw
             ELSE kind' = "blank" /\ cw' = 32               \* np.zeros([line_height, 32, channels])
          /\ ch' = H
          /\ UNCHANGED <<pts, asc, desc, H, poly, sc, page, inp, path>>

Done == pc = "done" /\ UNCHANGED vars                        \* crop() has returned; (checked with deadlock detection on)

Next == InputsOk \/ InputsRaise \/ RemapFast \/ RemapGeneral \/ RemapRaise \/ RemapSkipped \/ Result \/ Done
Spec == Init /\ [][Next]_vars

\* ======================================== properties ================================================
\* C10: only a degenerate line falls back to a blank image
BlankOnlyDegenerate == kind = "blank" => Degenerate
\* scope of the strict-environment spaces: only degenerate lines (the fallback clause); a violation is a mistake in the bounds
StrictScope == Env = "strict" => Degenerate
\* C10: exactly the configured height, on every path
HeightConfigured == pc = "done" => ch = H
\* C10: width = baseline length * target height / scaled line height (Appendix D tolerance)
WidthClause == (kind = "real" /\ ~Degenerate) => WidthOK(cw)
\* grid family: the row offsets are integers, first row = ascender height above, last row = descender height below
RowMappingExact == (Family = "grid" /\ pc = "done" /\ kind = "real") =>
                      /\ SampleY(0) = YB - asc /\ SampleY(H - 1) = YB + desc
                      /\ \A r \in 0..(H - 1) : (SampleY(r) - YB + asc) * (H - 1) = r * HS
\* grid family: the sub-image path reads exactly the pixels the whole-image path reads
FastEqualsGeneral == (Family = "grid" /\ pc = "done" /\ kind = "real" /\ path = "fast") =>
                        \A r \in 0..(H - 1) : \A x \in XMin..XMax : FastSample(x, SampleY(r)) = GeneralSample(x, SampleY(r))
\* grid family: image and baseline shifted together (or cut so that the band leaves the page) give the same pixels as
\* the base page (same content without offset) at every sample position that still lies inside the page
BasePage == [kind |-> page.kind, h |-> page.h - page.oy, w |-> page.w - page.ox, ox |-> 0, oy |-> 0]
InPage(x, y) == x >= 0 /\ x < page.w /\ y >= 0 /\ y < page.h
ShiftInvariant == (Family = "grid" /\ pc = "done" /\ kind = "real") =>
                     \A r \in 0..(H - 1) : \A x \in XMin..XMax :
                         PathSample(x, SampleY(r)) = IF InPage(x, SampleY(r))
                                                     THEN PixOf(BasePage, x - page.ox, SampleY(r) - page.oy) ELSE 0
=============================================================================
