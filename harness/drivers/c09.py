"""C09 - saved logits restore exactly; dense reconstruction (DESIGN.md section 4 C09, Appendix A.17).

1. TLC model-checks spec/LogitsStore.tla over every pair of bounded layouts (A: <= 2-3 lines with ids from {x, y, z}, every
   component present / absent / [None, None]; B: every sequence of ids with older values) and every operation sequence up
   to MaxOps of Save(file|bytes, missing ok or not) / SaveLegacy / Load(file|bytes) / Dense: invariants InvRestore,
   InvRestoreLegacy, InvReports, InvDense, InvEdit, InvUnique.  Round 9: Rescale (stored logits edited in place by the caller) and
   Scribble (arrays handed out by earlier Dense calls modified in place) as environment actions; the file path of Save / Load
   is spelled in four ways (absolute, bare name in the working directory, relative with a directory part, ./name).
2. For every pair of layouts (same JSON file feeds TLC's Init and the driver) operation sequences covering every action are
   replayed on real PageLayout objects holding real scipy sparse matrices (seeded shapes / sparsity / dtype, no stored 0.0),
   character tables and frame windows; after each call both layouts and the content of the written slot (read back with
   pickle alone) are projected to provenance tags.
3. TLC validates every recorded execution against LogitsStore_Trace.
"""
import json
import os
import random

from .. import logits_common as L
from ..core import pmap

LEVEL = "model_checking"

PLANS = [
    # op, layout, slot, missing ok, line, floor
    # both plans densify a line of B BEFORE anything is loaded into B and again afterwards (same floor): a dense view that
    # survives the replacement of the line's matrix would show the old values
    [["Dense", "B", "file", False, 1, 80],
     ["Save", "A", "file", False, 0, 0], ["Save", "A", "bytes", True, 0, 0], ["Load", "B", "bytes", False, 0, 0],
     ["Dense", "B", "file", False, 1, 80], ["Load", "B", "file", False, 0, 0], ["Dense", "B", "file", False, 2, 20],
     ["Dense", "A", "file", False, 1, 80]],
    [["Dense", "B", "file", False, 1, 20],
     ["Save", "A", "bytes", False, 0, 0], ["SaveLegacy", "A", "file", False, 0, 0], ["Load", "B", "file", False, 0, 0],
     ["Save", "B", "file", True, 0, 0], ["Load", "A", "file", False, 0, 0], ["Dense", "A", "file", False, 1, 80],
     ["Load", "B", "bytes", False, 0, 0], ["Dense", "B", "file", False, 1, 20]],
]
MAXOPS = 8
# round 9: histories on one long-lived line with the caller's in-place edits in between - query, modify the returned arrays,
# query again; alternating floor values; stored logits rescaled in place (line.logits *= f / line.logits.data *= f), query
# again; then the edited layout is saved and loaded and queried again.  Rescale: fl = 0 `logits *= f`, fl = 1 `logits.data *= f`.
PLAN_HIST = [
    ["Dense", "B", "file", False, 1, 80], ["Scribble", "B", "file", False, 1, 0], ["Dense", "B", "file", False, 1, 80],
    ["Dense", "B", "file", False, 1, 20], ["Dense", "B", "file", False, 1, 80],
    ["Rescale", "B", "file", False, 1, 0], ["Dense", "B", "file", False, 1, 80],
    ["Dense", "A", "file", False, 1, 20], ["Rescale", "A", "file", False, 1, 1], ["Dense", "A", "file", False, 1, 20],
    ["Save", "A", "file", False, 0, 0], ["Save", "A", "bytes", True, 0, 0], ["Load", "B", "file", False, 0, 0],
    ["Dense", "B", "file", False, 1, 80], ["Scribble", "B", "file", False, 1, 0], ["Rescale", "B", "file", False, 1, 1],
    ["Dense", "B", "file", False, 1, 80], ["Load", "B", "bytes", False, 0, 0], ["Dense", "B", "file", False, 1, 80],
    ["Scribble", "A", "file", False, 1, 0], ["Rescale", "A", "file", False, 1, 0], ["Dense", "A", "file", False, 1, 20],
    ["Dense", "B", "file", False, 2, 20], ["Scribble", "B", "file", False, 2, 0], ["Dense", "B", "file", False, 2, 20],
]
# round 9: [spelling of the file path in save_logits, in load_logits] - absolute / bare name in the working directory / relative
# with a directory part / "./name" (scope sentence: "file path ... variants")
PV_PAIRS = [["abs", "abs"], ["bare", "bare"], ["rel", "rel"], ["dot", "dot"], ["bare", "abs"], ["abs", "bare"], ["rel", "bare"]]


def _old(seq, no_logits=()):
    return [{"id": i, "lg": 0 if i in no_logits else 10 + L.BASE[i], "ch": 10 + L.BASE[i], "co": 10 + L.BASE[i]} for i in seq]


B_QUICK = [_old(""), _old("x"), _old("zx"), _old("xy"), _old("yzx"), _old("xyz"), _old("x", "x"), _old("yx", "y")]


def spaces(ctx):
    a2 = L.layouts(2)
    if ctx.tier == "quick":
        return {"A2xB": (a2, B_QUICK)}
    a3 = [l for l in L.layouts(3) if len(l) == 3 and sum(1 for x in l if x["lg"] == 0 or x["ch"] == 0 or x["co"] == 0) <= 1]
    return {"A2xB": (a2, L.layouts(2, old=True) + L.layouts(3, old=True, full_only=True)),
            "A3xB": (a3, B_QUICK)}


def mc_files(ctx, name, la, lb, u, root):
    pf = os.path.join(ctx.workdir, "lg_%s.json" % name)
    with open(pf, "w") as fh:
        json.dump({"A": la, "B": lb, "mats": [[t, m] for t, m in sorted(u["mats"].items())]}, fh)
    mc = ("---- MODULE MC_%s ----\nEXTENDS %s, Json\n"
          "MCJ == JsonDeserialize(\"%s\")\n"
          "MCInitA == {MCJ.A[i] : i \\in 1..Len(MCJ.A)}\n"
          "MCInitB == {MCJ.B[i] : i \\in 1..Len(MCJ.B)}\n"
          "MCMats == [t \\in {MCJ.mats[i][1] : i \\in 1..Len(MCJ.mats)} |-> MCJ.mats[CHOOSE i \\in 1..Len(MCJ.mats) : MCJ.mats[i][1] = t][2]]\n"
          "====\n" % (root, root, pf))
    return {"MC_%s.tla" % root: mc}


def consts(dirs, maxops):
    c = {"InitA": "<-MCInitA", "InitB": "<-MCInitB", "Mats": "<-MCMats", "Floors": {80, 20}, "MaxOps": maxops, "ObsToks": set(),
         "EditOn": set()}
    c.update(dirs)
    return c


ONE_WAY = {"SaveFrom": {"A"}, "LoadInto": {"B"}, "DenseOn": set()}
BOTH = {"SaveFrom": {"A", "B"}, "LoadInto": {"A", "B"}, "DenseOn": {"A", "B"}}       # (unused by the trace layer)
INVS = ["InvRestore", "InvRestoreLegacy", "InvReports", "InvDense", "InvEdit", "InvFunctional", "InvUnique"]


def design(ctx, name, la, lb, u, dirs, maxops, workers=4):
    return ctx.tlc("MC_LogitsStore", constants=consts(dirs, maxops), invariants=INVS,
                   files=mc_files(ctx, name, la, lb, u, "LogitsStore"), workers=workers, timeout=3000, jvm_mem="8g",
                   label="LogitsStore %s (%d x %d layouts, MaxOps=%d, %s)" % (
                       name, len(la), len(lb), maxops, "Save A; Load B" if dirs is ONE_WAY else
                       "in-place edits by the caller" if dirs.get("EditOn") else "all calls on both layouts"))


def execute(ctx, cases):
    L.set_workdir(ctx.workdir)
    return pmap(L.run_case, cases, procs=6)


def _slim(tr):
    t = {"A": tr["A"], "B": tr["B"], "outcome": tr["outcome"], "events": []}
    if "alto" in tr:
        t["alto"] = tr["alto"]
    for ev in tr["events"]:
        t["events"].append({k: v for k, v in ev.items() if k != "error"})
    return t


def judge(ctx, name, cases, traces, u):
    for tr in traces:
        if tr["outcome"].startswith("harness:"):
            raise RuntimeError("harness could not build the abstract layout as real objects: %s" % json.dumps(tr)[:1500])
    slim = [_slim(t) for t in traces]
    acc, rej = ctx.validate("MC_LogitsStore_Trace", slim, constants=consts(BOTH, 100),
                            files=mc_files(ctx, name + "_tr", [], [], u, "LogitsStore_Trace"),
                            label="LogitsStore_Trace %s" % name, jvm_mem="3g")
    for c, tr in zip(cases, traces):
        ids_a = {l["id"] for l in tr["A"]}
        nontrivial = bool(ids_a & {l["id"] for l in tr["B"]}) and any(e["op"] == "Load" for e in tr["events"])
        ctx.count(1, json.dumps([tr["A"], tr["B"], c.get("ops") or [c["k"], c["ver"], c["via"]]]) if nontrivial else None)
    ctx.sample({"space": name, "trace": slim[len(slim) // 2]}, limit=3)
    for i, prog in rej:
        tr, c = traces[i], cases[i]
        if tr["outcome"] != "ok":
            sig, what = "raised:%s" % tr["outcome"].split(":")[-1], "the harness-level sequence raised %s" % tr.get("error")
        elif prog < len(tr["events"]):
            ev = tr["events"][prog]
            sig = "%s%s" % (ev["op"].lower() if ev["op"] != "Observe" else "rebuilt-output:" + ev["k"],
                            ":raised" if (ev["status"] == "error" and ev["op"] != "Save") else "")
            if ev["status"] == "error" and ev.get("pv", "abs") != "abs":
                sig = "%s:path=%s" % (ev["op"].lower(), ev["pv"])
            what = ("call %d %s(%s, %s%s) is not a %s step of LogitsStore: status=%s %s; layouts after the call A=%s B=%s; slot=%s" % (
                prog + 1, ev["op"], ev["L"], ev["k"], ", missing_ok=%s" % ev["ok"] if ev["op"] == "Save" else "", ev["op"],
                ev["status"], ev.get("error", ""), ev["A"], ev["B"], ev["ents"]))
            if "pv" in ev:
                what += "; file path spelled %r (%s)" % (ev["pv"], L.PV_DOC.get(ev["pv"], ""))
            if ev["op"] == "Dense":
                what += "; calls on this line so far: %s; dense=%s lse=%s shift=%s" % (
                    [(e["op"], e["fl"]) for e in tr["events"][:prog] if e["L"] == ev["L"] and e["i"] in (ev["i"], 0)],
                    ev["obs"], ev["lse"], ev["shift"])
            if ev["op"] == "Observe":
                what = ("the %s output of layout %s%s differs from the output observed earlier for the same line ids / logits / "
                        "characters / windows (original vs rebuilt from PAGE XML + saved logits): %s" % (
                            ev["k"], ev["L"], " line %d" % ev["i"] if ev["i"] else "", tr.get("alto", "")))
        else:
            sig, what = "end", "trace not accepted"
        ctx.violation({"case": c, "trace": slim[i], "progress": prog}, sig, "%s; initial A=%s B=%s" % (what, tr["A"], tr["B"]))
    return acc, rej


def _corrupt(tr):
    # after the first Load one restored line carries another line's matrix tag (or loses it)
    for ev in tr["events"]:
        if ev["op"] == "Load":
            side = ev[ev["L"]]
            if side:
                side[0]["lg"] = 12 if side[0]["lg"] != 12 else 13
                return tr
    tr["events"][0]["status"] = "error" if tr["events"][0]["status"] == "ok" else "ok"
    return tr


def random_ops(rng, n):
    ops = []
    for _ in range(n):
        r = rng.random()
        lay = rng.choice(["A", "B"])
        k = rng.choice(["file", "bytes"])
        if r < 0.3:
            ops.append(["Save", lay, k, rng.random() < 0.6, 0, 0])
        elif r < 0.38:
            ops.append(["SaveLegacy", lay, "file", False, 0, 0])
        elif r < 0.75:
            ops.append(["Load", lay, k, False, 0, 0])
        else:
            ops.append(["Dense", lay, "file", False, rng.randint(1, 3), rng.choice([80, 20])])
    return ops


def random_hist_ops(rng, n):
    """round 9: Dense-heavy sequences with the caller's in-place edits and Save / Load in between"""
    ops = []
    for _ in range(n):
        r = rng.random()
        lay = rng.choice(["A", "B"])
        i = rng.randint(1, 2)
        if r < 0.4:
            ops.append(["Dense", lay, "file", False, i, rng.choice([80, 80, 20])])
        elif r < 0.55:
            ops.append(["Scribble", lay, "file", False, i, 0])
        elif r < 0.72:
            ops.append(["Rescale", lay, "file", False, i, rng.randint(0, 1)])
        elif r < 0.86:
            ops.append(["Save", lay, rng.choice(["file", "bytes"]), rng.random() < 0.7, 0, 0])
        else:
            ops.append(["Load", lay, rng.choice(["file", "bytes"]), False, 0, 0])
    return ops


def run(ctx):
    u = L.make_universe(ctx.seed)
    ctx.rule = ("every pair (A, B) of bounded layouts (A: <= 2 lines [thorough: 3] with ids from {x,y,z}, each of logits / characters "
                "/ window present or None, window also [None, None]; B: sequences of <= 3 ids carrying older values) x operation "
                "sequences covering Save(file|bytes, missing ok|not) / legacy file / Load(file|bytes) / Dense; the file path is "
                "spelled absolute / bare name in the working directory / relative with a directory part / ./name; histories on "
                "long-lived lines with the caller's in-place edits between the calls (returned arrays modified, stored logits "
                "rescaled in place, alternating floors); non-trivial = A and B share a line id and a Load was executed")
    ctx.exhaustive = True
    ctx.assume("line ids are unique within a layout and differ from the reserved keys 'line_characters' / 'logit_coords'",
               "sparse matrices hold no stored 0.0 (stated in the property); logits are multiples of 1/8 in [-5, 5]",
               "row normalisation of get_full_logprobs asserted within 1e-6 (float64 logits) / 1e-2 (float32 logits)")
    first = True
    for name, (la, lb) in spaces(ctx).items():
        design(ctx, name, la, lb, u, ONE_WAY, 2)       # every Save ; Load (Dense is explored in the small-both config)
        cases = [{"A": a, "B": b, "ops": PLANS[(i + j) % 2] if ctx.tier == "quick" else plan, "universe": u,
                  "pv": PV_PAIRS[(2 * i + j + p) % len(PV_PAIRS)]}
                 for i, a in enumerate(la) for j, b in enumerate(lb)
                 for p, plan in enumerate([None] if ctx.tier == "quick" else PLANS)]
        # round 9: histories with in-place edits by the caller on a sub-sample of the pairs
        step = 5 if ctx.tier == "quick" else 4
        cases += [{"A": a, "B": b, "ops": PLAN_HIST, "universe": u, "pv": PV_PAIRS[(i + 3 * j) % len(PV_PAIRS)]}
                  for i, a in enumerate(la) for j, b in enumerate(lb) if (i + j) % step == 0]
        traces = execute(ctx, cases)
        acc, rej = judge(ctx, name, cases, traces, u)
        if first and not rej:
            good = next(_slim(t) for t, c in zip(traces, cases) if any(e["op"] == "Load" and e[e["L"]] for e in t["events"]))
            ctx.selftest_corrupt("MC_LogitsStore_Trace", good, _corrupt, constants=consts(BOTH, 100),
                                 files=mc_files(ctx, "selftest", [], [], u, "LogitsStore_Trace"))
            first = False
    # lines whose missing components were simply never passed to the TextLine constructor (what user code does): an omitted
    # component must be missing, i.e. reported by Save
    ctor_plan = [["Save", "A", "file", False, 0, 0], ["Save", "A", "bytes", False, 0, 0], ["Save", "A", "file", True, 0, 0],
                 ["Load", "B", "file", False, 0, 0]]
    pool = [a for a in L.layouts(2) if any(l["lg"] == L.NONE or l["ch"] == L.NONE or l["co"] == L.NONE for l in a)]
    ccd = [{"A": a, "B": b, "ops": ctor_plan, "universe": u, "ctor_defaults": True}
           for a in pool[::(3 if ctx.tier == "quick" else 1)] for b in L.layouts(2, old=True)[:2]]
    judge(ctx, "constructor-defaults", ccd, execute(ctx, ccd), u)
    # both directions, longer sequences, on a smaller set of layouts
    full = {"SaveFrom": {"A", "B"}, "LoadInto": {"A", "B"}, "DenseOn": {"A", "B"}}
    sa = [l for l in L.layouts(2, ids=["x", "y"]) if len(l) >= 1][::(13 if ctx.tier == "quick" else 5)]
    sb = L.layouts(2, old=True, ids=["x", "y"])[::2]
    design(ctx, "small-both", sa, sb, u, dict(full, ObsToks=({1} if ctx.tier == "quick" else {1, 2})), 3)
    if ctx.tier == "thorough":
        design(ctx, "small-both-deep", sa[::9], sb[::2], u, dict(full, ObsToks={1}), 4)
    # round 9: Save / Load / Dense together with the caller's in-place edits (Rescale, Scribble): a few small layouts, every
    # sequence of <= MaxOps calls
    hist = {"SaveFrom": {"A"}, "LoadInto": {"B"}, "DenseOn": {"B"}, "EditOn": {"A", "B"}}
    ha = [[{"id": "x", "lg": 1, "ch": 1, "co": 1}], [{"id": "y", "lg": 2, "ch": 2, "co": 1000}, {"id": "x", "lg": 1, "ch": 1, "co": 1}]]
    hb = [_old("x"), _old("xy")]
    design(ctx, "edit-histories", ha, hb, u, hist, 4 if ctx.tier == "quick" else 5)
    rng = random.Random(ctx.seed * 104729 + 9)
    n = 400 if ctx.tier == "quick" else 6000
    pool_a, pool_b = L.layouts(3), L.layouts(3, old=True)
    cases = [{"A": rng.choice(pool_a), "B": rng.choice(pool_b), "ops": random_ops(rng, rng.randint(2, MAXOPS)), "universe": u}
             for _ in range(n)]
    rng2 = random.Random(ctx.seed * 7919 + 99)                # (separate stream: the sequences above stay what they were)
    for c in cases:
        c["pv"] = rng2.choice(PV_PAIRS)
    full_a = [l for l in pool_a if l and all(x["lg"] and x["ch"] and x["co"] for x in l)]
    cases += [{"A": rng2.choice(full_a if rng2.random() < 0.7 else pool_a), "B": rng2.choice(pool_b),
               "ops": random_hist_ops(rng2, rng2.randint(4, 14)), "universe": u, "pv": rng2.choice(PV_PAIRS)}
              for _ in range(200 if ctx.tier == "quick" else 3000)]
    traces = execute(ctx, cases)
    judge(ctx, "seeded-sequences", cases, traces, u)
    # composite clause: layout rebuilt from the saved PAGE XML + logits re-decodes / exports ALTO like the original
    import itertools
    cu = L.composite_universe(ctx.seed)
    ccases = [{"ids": list(seq), "k": k, "ver": ver, "via": via, "universe": cu}
              for n in (1, 2, 3) for seq in itertools.permutations(L.IDS, n)
              for k in ("file", "bytes") for ver in (1, 2) for via in ("string", "ctor")]
    if ctx.tier == "quick":
        ccases = ccases[::3]
    for n, c in enumerate(ccases):          # round 9: PAGE XML / logits written and read under every spelling of the path
        c["pv"] = L.PATH_VARIANTS[n % len(L.PATH_VARIANTS)]
    L.set_workdir(ctx.workdir)
    ctraces = [L.run_composite(c) for c in ccases]
    judge(ctx, "composite", ccases, ctraces, cu)
    folder_level(ctx)
    ctx.notes["explanation"] = ("TLC exhaustive on LogitsStore (%s) per layout space; every layout pair replayed on real PageLayout "
                                "objects with real scipy sparse matrices through save_logits / save_logits_bytes / load_logits / "
                                "get_dense_logits / get_full_logprobs and validated by LogitsStore_Trace; plus seeded operation "
                                "sequences over both layouts" % ", ".join(INVS))
    ctx.notes["universe"] = {"mats": {str(k): v for k, v in u["mats"].items()}, "dtypes": {str(k): v for k, v in u["dtypes"].items()}}


def folder_level(ctx, only=None):
    """spec/LogitsFolder.tla: parse_folder.Computator stores PAGE XML + logits per page id and a later run rebuilds every page
    from the two folders; ids with dots, ids that are prefixes of each other"""
    import itertools
    from .. import lfolder_common as F
    fc = {"MaxLen": 3, "Naming": "append", "MaxOps": 4 if ctx.tier == "quick" else 5}
    if only is None:
        ctx.tlc("LogitsFolder", constants=fc, invariants=["OwnArtefacts", "OneFilePerPage"], spec="Spec", label="LogitsFolder append naming")
        ctx.tlc("LogitsFolder", constants=dict(fc, Naming="suffix", MaxOps=3), invariants=["OwnArtefacts"], spec="Spec",
                expect_violation="OwnArtefacts", label="LogitsFolder suffix-replacing naming (self-test)")
    ids = F.all_ids(3)
    if only is not None:
        cases = [only]
    else:
        cases = [{"pages": [a, b]} for a, b in itertools.permutations(ids, 2)]
        rng = random.Random(ctx.seed * 31337 + 5)
        cases += [{"pages": rng.sample(ids, 3)} for _ in range(60 if ctx.tier == "quick" else 1500)]
        if ctx.tier == "quick":
            cases = cases[::2] + [c for c in cases[1::2] if any("." in p for p in c["pages"])][::3]
    F.set_workdir(ctx.workdir)
    traces = [F.run_folder(c) for c in cases]
    acc, rej = ctx.validate("LogitsFolder_Trace", traces, constants=dict(fc, MaxOps=100))
    for c, tr in zip(cases, traces):
        ctx.count(1, ("folder", tuple(tuple(p) for p in c["pages"])) if any("." in p for p in c["pages"]) else None)
    if only is None:
        ctx.sample({"folder": traces[len(traces) // 2]}, limit=8)
    for idx, prog in rej:
        tr = traces[idx]
        names = [F.name_of(p) for p in tr["pages"]]
        ev = tr["events"][prog] if prog < len(tr["events"]) else None
        if tr["outcome"] != "ok":
            sig, what = "folder:exception", "Computator raised (%s)" % tr["outcome"]
        elif ev is not None and ev["op"] == "rebuild" and (ev["xml"] != ev["page"] or ev["logits"] != ev["page"]):
            sig = "folder:foreign-artefacts"
            what = "page %r was rebuilt from the PAGE XML of %r and the logits of %r" % (
                F.name_of(ev["page"]), "".join(F.CONCRETE.get(t, t) for t in ev["xml"]), "".join(F.CONCRETE.get(t, t) for t in ev["logits"]))
        else:
            sig, what = "folder:rebuilt-output", "the rebuilt page differs from the first run: %s" % "; ".join(tr["notes"][:2])
        ctx.violation({"case": {"folder": cases[idx]}, "trace": tr, "progress": prog}, sig,
                      "pages %s stored by parse_folder.Computator then rebuilt from the xml + logits folders: %s; logits folder holds %s" % (
                          names, what, tr.get("files")))
    if only is None and not rej:
        good = next(t for t in traces if t["outcome"] == "ok")
        def corrupt(t):
            t["events"][-1]["logits"] = t["events"][0]["page"] if t["events"][0]["page"] != t["events"][-1]["page"] else ["?"]
            return t
        ctx.selftest_corrupt("LogitsFolder_Trace", good, corrupt, constants=dict(fc, MaxOps=100))


def replay(ctx, case):
    c = case["case"]
    if "folder" in c:
        folder_level(ctx, only=c["folder"])
        return
    L.set_workdir(ctx.workdir)
    tr = L.run_composite(c) if "ids" in c else L.run_case(c)
    judge(ctx, "replay", [c], [tr], _u(c["universe"]))


def _u(u):
    return {"mats": {int(k): v for k, v in u["mats"].items()}, "chars": {int(k): v for k, v in u["chars"].items()},
            "coords": {int(k): v for k, v in u["coords"].items()}, "dtypes": {int(k): v for k, v in u["dtypes"].items()}}
