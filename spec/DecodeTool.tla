------------------------------ MODULE DecodeTool ------------------------------
(* Growth beyond the listed properties (DESIGN.md section 8 / 12.5): the stand-alone decoding interface
   pero_ocr/decoding/decoding_itf.py and pero_ocr/transcription_io.py.  Four small machines, one record variable each
   (the other three rest at Idle while one of them runs; TLC checks them in separate configurations INIT X_Init NEXT X_Next):

     fa  decoder_factory(config, characters, device, allow_no_decoder): one action per statement of the function - which
         decoder class with which parameters and letters, or which exception
     tl  one TimeLogger object driven by any sequence of log_line_start / log_line_end(n) / print_final_stats
     de  decode_page / decode_paragraph on one long-lived decoder: a page = sequence of paragraphs, a paragraph = sequence of
         [label, line] with distinct labels (a dict), a line = sequence of frames of stored logits; one action per
         TimeLogger creation, paragraph start, loop iteration (= one line), paragraph end, final statistics; histories of calls
     io  transcription_io: save_transcriptions (one action per written key), load_transcriptions (one action per line of
         the file), parse_transcription_line (one call) over strings of the alphabet letter / space / newline / other

   Legacy = TRUE is the code as it is today, Legacy = FALSE the evidently intended behaviour; the differences:
     fa  a section without TYPE raises KeyError and `allow_no_decoder` is never read    (intended: None if allowed, else ValueError)
     tl  loud statistics divide by the number of frames of a line, by the number of lines and by the total number of frames:
         ZeroDivisionError for a line of zero frames / a page without lines; log_line_end before any log_line_start raises
         AttributeError (the attribute is created by log_line_start only)                (intended: statistics never raise)
     de  the same ZeroDivisionError leaves decode_page(..., time_logging=True)
     io  `transcription[-1]` on an empty transcription raises IndexError (last line of a file "key " without newline), and the
         test `len(line) == 0` that is meant to skip blank lines can never hold (a blank line is "\n"), so a blank line is
         reported as unparsable                                                          (intended: empty transcription; skipped) *)
EXTENDS Integers, Sequences, FiniteSets, TLC

CONSTANTS Legacy,
          BeamVals, ScaleVals, BonusVals,  \* decoder_factory: BEAM_SIZE values (naturals), LM_SCALE / INSERTION_BONUS in thousandths
          NCharLists,                      \* decoder_factory: how many of the six character lists
          MaxOps, MaxFr,                   \* TimeLogger: length of the call sequence, frames passed to log_line_end
          NC, LevelCodes, MaxT,            \* decode: classes (letters + blank), codes of the stored logit levels, frames per line
          DUniverse, MaxPars, MaxCalls,    \* decode: "lines" (one label, every line) | "pages" (structures over the palette) | "history"
          DLouds, DKindSet, NPal,          \* decode: time_logging / decoder kinds of the initial states, size of the palette
          K1, V1, K2, V2, MaxFile, MaxLine \* transcription_io: key / value lengths of dictionaries of 1 and 2 entries; file / line length

VARIABLES fa, tl, de, io
vars == <<fa, tl, de, io>>
Idle == [pc |-> "idle"]

\* ===================================================================================================================
\* fa : decoder_factory
\* ===================================================================================================================
Blank   == "<BLANK>"          \* decoders.BLANK_SYMBOL
Missing == 1000001            \* the key is not in the section
Bad     == 1000002            \* the value does not parse (int() / float() raise ValueError)
NoK     == 1000003            \* k = None
Beams    == {Missing, Bad, -1} \cup BeamVals
Scales   == {Missing, Bad} \cup ScaleVals
Bonuses  == {Missing, Bad, -500} \cup BonusVals
CharListSeq == << <<"a", "b">>, <<"a", "a">>, <<"a", Blank>>, <<>>, <<"a">>, <<Blank>> >>
CharLists == {CharListSeq[i] : i \in 1..NCharLists}
NoDup(s) == \A i, j \in DOMAIN s : i # j => s[i] # s[j]
NoLm == [on |-> FALSE, syms |-> <<>>]
NoDecoder == [cls |-> "none", letters |-> <<>>, k |-> 0, scale |-> 0, bonus |-> 0, lm |-> NoLm]
F_Configs == [type : {"FAST-LOG-RAW", "GREEDY", "other", "missing"}, beam : Beams, scale : Scales, bonus : Bonuses, lm : BOOLEAN]

F_Start(cfg, chars, allow) ==
    [pc |-> "type", cfg |-> cfg, chars |-> chars, allow |-> allow, k |-> NoK, scale |-> 0, bonus |-> 0, lm |-> NoLm,
     lmloads |-> 0, out |-> NoDecoder, outcome |-> "running"]
F_Init == /\ fa \in {F_Start(c, ch, al) : c \in F_Configs, ch \in CharLists, al \in BOOLEAN}
          /\ tl = Idle /\ de = Idle /\ io = Idle

F_Raise(e) == fa' = [fa EXCEPT !.pc = "done", !.outcome = e]
F_Letters == fa.chars \o <<Blank>>                       \* full_characters = characters + [BLANK_SYMBOL]

\* decoder_type = config['TYPE'] and the dispatch on it
F_ReadType == /\ fa.pc = "type"
              /\ CASE fa.cfg.type = "missing" ->
                        IF Legacy THEN F_Raise("KeyError")
                        ELSE IF fa.allow THEN fa' = [fa EXCEPT !.pc = "done", !.outcome = "none"]
                        ELSE F_Raise("ValueError")
                   [] fa.cfg.type = "FAST-LOG-RAW" -> fa' = [fa EXCEPT !.pc = "beam"]
                   [] fa.cfg.type = "GREEDY" -> fa' = [fa EXCEPT !.pc = "greedy"]
                   [] OTHER -> F_Raise("ValueError")                      \* Unknown decoder type
\* k = config.getint('BEAM_SIZE'): None when missing
F_ReadBeam == /\ fa.pc = "beam"
              /\ IF fa.cfg.beam = Bad THEN F_Raise("ValueError")
                 ELSE fa' = [fa EXCEPT !.pc = "scale", !.k = IF fa.cfg.beam = Missing THEN NoK ELSE fa.cfg.beam]
\* lm_scale = config.getfloat('LM_SCALE'); None -> ValueError("Missing LM_SCALE key in the config")
F_ReadScale == /\ fa.pc = "scale"
               /\ IF fa.cfg.scale \in {Bad, Missing} THEN F_Raise("ValueError")
                  ELSE fa' = [fa EXCEPT !.pc = "bonus", !.scale = fa.cfg.scale]
\* insertion_bonus = config.getfloat('INSERTION_BONUS', fallback=0.0)
F_ReadBonus == /\ fa.pc = "bonus"
               /\ IF fa.cfg.bonus = Bad THEN F_Raise("ValueError")
                  ELSE fa' = [fa EXCEPT !.pc = "lm", !.bonus = IF fa.cfg.bonus = Missing THEN 0 ELSE fa.cfg.bonus]
\* lm = lm_factory(config); LMWrapper(lm, full_characters[:-1], device): the LM is loaded before the letters are validated
F_MakeLm == /\ fa.pc = "lm"
            /\ fa' = IF fa.cfg.lm THEN [fa EXCEPT !.pc = "ctc", !.lm = [on |-> TRUE, syms |-> fa.chars], !.lmloads = 1]
                     ELSE [fa EXCEPT !.pc = "ctc"]
\* CTCPrefixLogRawNumpyDecoder(full_characters, k, lm, lm_scale, insertion_bonus): assert_letters_valid, assert_beam_size_valid
F_Ctc == /\ fa.pc = "ctc"
         /\ IF ~NoDup(F_Letters) THEN F_Raise("ValueError")
            ELSE IF fa.k = NoK THEN F_Raise("TypeError")
            ELSE IF fa.k < 1 THEN F_Raise("ValueError")
            ELSE fa' = [fa EXCEPT !.pc = "done", !.outcome = "ok",
                                  !.out = [cls |-> "CTCPrefixLogRawNumpyDecoder", letters |-> F_Letters, k |-> fa.k,
                                           scale |-> fa.scale, bonus |-> fa.bonus, lm |-> fa.lm]]
\* GreedyDecoder(full_characters)
F_Greedy == /\ fa.pc = "greedy"
            /\ IF ~NoDup(F_Letters) THEN F_Raise("ValueError")
               ELSE fa' = [fa EXCEPT !.pc = "done", !.outcome = "ok",
                                     !.out = [NoDecoder EXCEPT !.cls = "GreedyDecoder", !.letters = F_Letters]]
F_Step == F_ReadType \/ F_ReadBeam \/ F_ReadScale \/ F_ReadBonus \/ F_MakeLm \/ F_Ctc \/ F_Greedy
F_Next == F_Step /\ UNCHANGED <<tl, de, io>>
F_Spec == F_Init /\ [][F_Next]_vars /\ WF_vars(F_Next)

\* ------------------------------------------------ properties ------------------------------------------------
F_On == fa.pc # "idle"
F_TypeOK == F_On => /\ fa.pc \in {"type", "beam", "scale", "bonus", "lm", "ctc", "greedy", "done"}
                    /\ (fa.pc = "done") <=> (fa.outcome # "running")
\* what may leave the factory: the ValueErrors it raises itself or the decoder constructors raise for it, the constructor's TypeError
\* for a beam size that is no int
F_OnlyDocumentedErrors == F_On => fa.outcome \in {"running", "ok", "none", "ValueError", "TypeError"}
F_LettersOK == (F_On /\ fa.outcome = "ok") =>
                  /\ fa.out.letters = fa.chars \o <<Blank>>
                  /\ NoDup(fa.out.letters)
                  /\ \A i \in DOMAIN fa.out.letters : (fa.out.letters[i] = Blank) <=> (i = Len(fa.out.letters))
F_Decision == (F_On /\ fa.outcome = "ok") =>
                  /\ (fa.out.cls = "GreedyDecoder") <=> (fa.cfg.type = "GREEDY")
                  /\ (fa.out.cls = "CTCPrefixLogRawNumpyDecoder") <=> (fa.cfg.type = "FAST-LOG-RAW")
                  /\ (fa.out.cls = "CTCPrefixLogRawNumpyDecoder") =>
                        /\ fa.out.k = fa.cfg.beam /\ fa.out.k >= 1 /\ fa.out.k \notin {Missing, Bad, NoK}
                        /\ fa.out.scale = fa.cfg.scale /\ fa.cfg.scale \notin {Missing, Bad}
                        /\ fa.out.bonus = (IF fa.cfg.bonus = Missing THEN 0 ELSE fa.cfg.bonus)
                        /\ fa.out.lm.on = fa.cfg.lm
                        /\ fa.out.lm.on => fa.out.lm.syms = fa.chars          \* the LM never sees the blank
                  /\ (fa.out.cls = "GreedyDecoder") => (fa.out.lm = NoLm /\ fa.lmloads = 0)  \* a greedy section never loads the LM
F_NoneOnlyIfAllowed == (F_On /\ fa.outcome = "none") => (fa.allow /\ fa.cfg.type = "missing")
\* a FAST-LOG-RAW section without LM_SCALE is always refused (whatever else is wrong, it is a ValueError)
F_MissingScaleRefused == (F_On /\ fa.pc = "done" /\ fa.cfg.type = "FAST-LOG-RAW" /\ fa.cfg.scale = Missing) => fa.outcome = "ValueError"
F_Terminates == <>(fa.pc = "done")

\* ===================================================================================================================
\* TimeLogger (shared by tl and de): a record [loud, lines, frames, started, printed]; every method returns the new record
\* and what it raised.  Times are not modelled, only the counters, the number of lines printed and the divisions that fail.
\* ===================================================================================================================
TL_New(loud) == [loud |-> loud, lines |-> 0, frames |-> 0, started |-> FALSE, printed |-> 0]
TL_DoStart(t) == [t |-> [t EXCEPT !.started = TRUE], exc |-> "ok"]
TL_DoEnd(t, n) ==
    IF Legacy /\ ~t.started THEN [t |-> t, exc |-> "AttributeError"]           \* self._line_start does not exist yet
    ELSE LET u == [t EXCEPT !.lines = @ + 1, !.frames = @ + n] IN              \* the counters are updated before the print
         IF ~t.loud THEN [t |-> u, exc |-> "ok"]
         ELSE IF Legacy /\ n = 0 THEN [t |-> u, exc |-> "ZeroDivisionError"]   \* 1000.0 * line_duration / nb_frames
         ELSE [t |-> [u EXCEPT !.printed = @ + 1], exc |-> "ok"]
TL_DoFinal(t) ==
    IF ~t.loud THEN [t |-> t, exc |-> "ok"]
    ELSE IF Legacy /\ (t.lines = 0 \/ t.frames = 0) THEN [t |-> t, exc |-> "ZeroDivisionError"]  \* duration / nb_lines, / total_nb_frames
    ELSE [t |-> [t EXCEPT !.printed = @ + 1], exc |-> "ok"]

\* tl : one TimeLogger, any call sequence; an exception does not end the session (the object stays usable)
L_Start(loud) == [pc |-> "run", t |-> TL_New(loud), nops |-> 0, last |-> "init", ends |-> 0, fsum |-> 0]
L_Init == /\ tl \in {L_Start(loud) : loud \in BOOLEAN}
          /\ fa = Idle /\ de = Idle /\ io = Idle
L_Apply(r) == [tl EXCEPT !.t = r.t, !.last = r.exc, !.nops = @ + 1]
L_CallStart == tl' = L_Apply(TL_DoStart(tl.t))
L_CallEnd(n) == LET r == TL_DoEnd(tl.t, n) IN
                tl' = [L_Apply(r) EXCEPT !.ends = IF r.exc = "AttributeError" THEN @ ELSE @ + 1,
                                         !.fsum = IF r.exc = "AttributeError" THEN @ ELSE @ + n]
L_CallFinal == tl' = L_Apply(TL_DoFinal(tl.t))
L_OpStart == tl.pc = "run" /\ tl.nops < MaxOps /\ L_CallStart
L_OpEnd == tl.pc = "run" /\ tl.nops < MaxOps /\ \E n \in 0..MaxFr : L_CallEnd(n)
L_OpFinal == tl.pc = "run" /\ tl.nops < MaxOps /\ L_CallFinal
L_Next == (L_OpStart \/ L_OpEnd \/ L_OpFinal) /\ UNCHANGED <<fa, de, io>>
L_Spec == L_Init /\ [][L_Next]_vars /\ WF_vars(L_Next)

L_On == tl.pc # "idle"
L_TypeOK == L_On => /\ tl.nops \in 0..MaxOps /\ tl.t.lines \in 0..MaxOps /\ tl.t.frames \in 0..(MaxOps * MaxFr)
                    /\ tl.last \in {"init", "ok", "ZeroDivisionError", "AttributeError"}
\* no method of the logger raises: statistics must never cost the decoding its result
L_OnlyDocumentedErrors == L_On => tl.last \in {"init", "ok"}
\* the counters are the number of completed log_line_end calls and the sum of their frames; a quiet logger prints nothing,
\* a loud one at most one line per call
L_Counters == L_On => /\ tl.t.lines = tl.ends /\ tl.t.frames = tl.fsum
                      /\ tl.t.printed <= tl.nops
                      /\ ~tl.t.loud => (tl.t.printed = 0 /\ tl.last # "ZeroDivisionError")
L_Terminates == <>(tl.nops = MaxOps)

\* ===================================================================================================================
\* de : decode_page / decode_paragraph
\* ===================================================================================================================
\* stored logits: code 0 = not stored (pruned), 1 = stored and exactly 0.0, 10 + v = stored level v (v # 0, |v| small)
Z == 0
EZ == 1
Floor == 0 - 80                                        \* ZERO_LOGITS
Dense(e) == IF e = Z \/ e = EZ THEN Floor ELSE e - 10  \* dense_logits[dense_logits == 0] = ZERO_LOGITS: a stored 0.0 is floored too
\* log_softmax is strictly increasing within a frame, so the arg-max of the normalised frame is the arg-max of the dense one;
\* which of several equal maxima the decoder takes is left open
ArgMaxSet(fr) == {c \in DOMAIN fr : \A c2 \in DOMAIN fr : Dense(fr[c]) >= Dense(fr[c2])}
\* greedy decoding = collapse repeats of the arg-max path, then drop blanks (blank = last class); S = {<<text so far, last class>>}
CollapseStep(S, A, blank) == {<<IF c = p[2] \/ c = blank THEN p[1] ELSE Append(p[1], c), c>> : p \in S, c \in A}
RECURSIVE Scan(_, _, _)
Scan(line, t, S) == IF t > Len(line) THEN S ELSE Scan(line, t + 1, CollapseStep(S, ArgMaxSet(line[t]), Len(line[t])))
Transcripts(line) == {p[1] : p \in Scan(line, 1, {<< <<>>, 0 >>})}

Entries == {Z, EZ} \cup LevelCodes
Frames == [1..NC -> Entries]
LinesAll == UNION {[1..t -> Frames] : t \in 0..MaxT}
\* palette for the structure runs (NC = 3): "a"; "ba" (its first frame holds a stored 0.0 on class 1 that loses to a stored -1
\* on class 2); a line of zero frames; "" (blank only)
PaletteSeq == << << <<11, 0, 0>> >>, << <<1, 9, 0>>, <<11, 0, 0>> >>, << >>, << <<0, 0, 11>> >> >>
Palette == {PaletteSeq[i] : i \in 1..NPal}
Labels == {"x", "y"}
Paragraphs(L) == {<<>>} \cup {<<[label |-> a, line |-> l]>> : a \in Labels, l \in L}
                        \cup {<<[label |-> ab[1], line |-> l1], [label |-> ab[2], line |-> l2]>> :
                                  ab \in {q \in Labels \X Labels : q[1] # q[2]}, l1 \in L, l2 \in L}
PagesOf(L, n) == UNION {[1..m -> Paragraphs(L)] : m \in 0..n}
LinePages == {<< <<[label |-> "x", line |-> l]>> >> : l \in LinesAll}
\* the "history" runs: six pages (empty page, page with one empty paragraph, one line of the palette under label x)
HistoryPages == {<<>>, << <<>> >>} \cup {<< <<[label |-> "x", line |-> l]>> >> : l \in Palette}
DPages == CASE DUniverse = "lines" -> LinePages [] DUniverse = "pages" -> PagesOf(Palette, MaxPars) [] OTHER -> HistoryPages
DKinds == {"greedy", "lenient"}      \* the real GreedyDecoder (refuses a line of zero frames) | the same behind a guard that returns "" for it

D_Start(page, loud, dk, n) ==
    [pc |-> "new", page |-> page, loud |-> loud, dkind |-> dk, p |-> 1, i |-> 1, cur |-> <<>>, res |-> <<>>,
     t |-> TL_New(FALSE), outcome |-> "running", ncall |-> n]
D_Init == /\ de \in {D_Start(pg, loud, dk, 1) : pg \in DPages, loud \in DLouds, dk \in DKindSet}
          /\ fa = Idle /\ tl = Idle /\ io = Idle
D_Raise(e, t) == de' = [de EXCEPT !.pc = "done", !.outcome = e, !.t = t, !.res = <<>>, !.cur = <<>>]

\* time_logger = TimeLogger(loud=time_logging)
D_NewLogger == /\ de.pc = "new"
               /\ de' = [de EXCEPT !.pc = "par", !.t = TL_New(de.loud)]
\* for paragraph_logits in page_logits: decode_paragraph(...) starts with an empty dict
D_ParStart == /\ de.pc = "par" /\ de.p <= Len(de.page)
              /\ de' = [de EXCEPT !.pc = "line", !.i = 1, !.cur = <<>>]
\* one iteration of `for label in logits`: dense logits of THIS label, log_line_start, decoder, log_line_end(len(line_logits))
D_Line == /\ de.pc = "line" /\ de.i <= Len(de.page[de.p])
          /\ LET item == de.page[de.p][de.i]
                 nfr == Len(item.line)
                 t1 == TL_DoStart(de.t).t IN
             IF nfr = 0 /\ de.dkind = "greedy" THEN D_Raise("ValueError", t1)       \* the decoder's np.max over no frames
             ELSE LET r == TL_DoEnd(t1, nfr) IN
                  IF r.exc # "ok" THEN D_Raise(r.exc, r.t)
                  ELSE \E text \in Transcripts(item.line) :
                          de' = [de EXCEPT !.i = @ + 1, !.t = r.t, !.cur = Append(@, [label |-> item.label, text |-> text])]
\* return paragraph_transcripts; page_transcripts.append(...)
D_ParEnd == /\ de.pc = "line" /\ de.i > Len(de.page[de.p])
            /\ de' = [de EXCEPT !.pc = "par", !.p = @ + 1, !.res = Append(@, de.cur), !.cur = <<>>]
\* time_logger.print_final_stats(); return page_transcripts
D_Final == /\ de.pc = "par" /\ de.p > Len(de.page)
           /\ LET r == TL_DoFinal(de.t) IN
              IF r.exc # "ok" THEN D_Raise(r.exc, r.t)
              ELSE de' = [de EXCEPT !.pc = "done", !.outcome = "ok", !.t = r.t]
\* the caller keeps the decoder and decodes another page with it (nothing but the call counter is carried over)
D_CallWith(pg, loud, dk) == /\ de.pc = "done"
                            /\ de' = D_Start(pg, loud, dk, de.ncall + 1)
D_NextCall == de.pc = "done" /\ de.ncall < MaxCalls /\ \E pg \in DPages, loud \in DLouds, dk \in DKindSet : D_CallWith(pg, loud, dk)
D_Step == D_NewLogger \/ D_ParStart \/ D_Line \/ D_ParEnd \/ D_Final
D_Next == (D_Step \/ D_NextCall) /\ UNCHANGED <<fa, tl, io>>
D_Spec == D_Init /\ [][D_Next]_vars /\ WF_vars(D_Next)
\* single calls only (the "lines" and "pages" runs; call sequences are the "history" runs)
D_NextSingle == D_Step /\ UNCHANGED <<fa, tl, io>>
D_SpecSingle == D_Init /\ [][D_NextSingle]_vars /\ WF_vars(D_NextSingle)

D_On == de.pc # "idle"
RECURSIVE SumSeq(_)
SumSeq(s) == IF s = <<>> THEN 0 ELSE Head(s) + SumSeq(Tail(s))
D_NLines(pg) == SumSeq([q \in DOMAIN pg |-> Len(pg[q])])
D_NFrames(pg) == SumSeq([q \in DOMAIN pg |-> SumSeq([j \in DOMAIN pg[q] |-> Len(pg[q][j].line)])])
D_TypeOK == D_On => /\ de.pc \in {"new", "par", "line", "done"}
                    /\ (de.pc = "done") <=> (de.outcome # "running")
                    /\ de.ncall \in 1..MaxCalls
\* the decoder's refusal of a line without frames is the only exception that may leave decode_page
D_OnlyDocumentedErrors == D_On => de.outcome \in {"running", "ok", "ValueError"}
D_ParOwn(rp, pp) == /\ Len(rp) = Len(pp)
                    /\ \A j \in DOMAIN rp : rp[j].label = pp[j].label /\ rp[j].text \in Transcripts(pp[j].line)
\* provenance: at any moment the finished paragraphs and the current one carry, label by label and in the order of the input, a
\* transcription of that label's own logits; a finished page has every paragraph (the same label in two paragraphs stays separate)
D_OwnLogits == (D_On /\ de.outcome \in {"running", "ok"}) =>
                  /\ Len(de.res) <= Len(de.page)
                  /\ \A q \in DOMAIN de.res : D_ParOwn(de.res[q], de.page[q])
                  /\ de.pc = "line" => /\ Len(de.cur) = de.i - 1 /\ Len(de.res) = de.p - 1
                                       /\ D_ParOwn(de.cur, SubSeq(de.page[de.p], 1, de.i - 1))
                  /\ de.outcome = "ok" => Len(de.res) = Len(de.page)
D_Counters == (D_On /\ de.outcome = "ok") =>
                  /\ de.t.lines = D_NLines(de.page) /\ de.t.frames = D_NFrames(de.page)
                  /\ de.t.printed = (IF de.loud THEN D_NLines(de.page) + 1 ELSE 0)
\* quiet decoding never fails for the statistics; the greedy decoder's ValueError needs a line without frames
D_ErrorsExplained == (D_On /\ de.outcome = "ValueError") =>
                        (de.dkind = "greedy" /\ \E q \in DOMAIN de.page : \E j \in DOMAIN de.page[q] : de.page[q][j].line = <<>>)
\* the zero convention: a stored logit of exactly 0.0 is floored like a pruned one, so it is never the arg-max of a frame that
\* holds any stored non-zero logit, and a frame without one is a tie of all classes
D_ZeroConvention == \A fr \in Frames :
                       /\ (\E c \in 1..NC : fr[c] \notin {Z, EZ}) => \A c \in 1..NC : fr[c] \in {Z, EZ} => c \notin ArgMaxSet(fr)
                       /\ (\A c \in 1..NC : fr[c] \in {Z, EZ}) => ArgMaxSet(fr) = 1..NC
D_Terminates == <>(de.pc = "done")

\* ===================================================================================================================
\* io : transcription_io
\* ===================================================================================================================
Alphabet == {"l", "s", "n", "o"}           \* a letter, U+0020, U+000A, anything else (tab, '#', non-ASCII, other line separators)
Str(n) == UNION {[1..m -> Alphabet] : m \in 0..n}
FirstIdx(s, ch) == IF \E i \in DOMAIN s : s[i] = ch
                   THEN CHOOSE i \in DOMAIN s : s[i] = ch /\ \A j \in 1..(i - 1) : s[j] # ch ELSE 0
From(s, i) == IF i > Len(s) THEN <<>> ELSE SubSeq(s, i, Len(s))
Upto(s, i) == IF i < 1 THEN <<>> ELSE SubSeq(s, 1, i)
PErr(e) == [st |-> e, key |-> <<>>, emb |-> <<>>, text |-> <<>>]
\* parse_transcription_line: line.split(" ", maxsplit=1 or 2), one trailing newline removed from the transcription
ParseLine(line, emb) ==
    LET sp1 == FirstIdx(line, "s") IN
    IF sp1 = 0 THEN PErr("ValueError")                                   \* not enough values to unpack
    ELSE LET aft == From(line, sp1 + 1)
             sp2 == FirstIdx(aft, "s") IN
         IF emb /\ sp2 = 0 THEN PErr("ValueError")
         ELSE LET e == IF emb THEN Upto(aft, sp2 - 1) ELSE <<>>
                  rest == IF emb THEN From(aft, sp2 + 1) ELSE aft IN
              IF rest = <<>> THEN (IF Legacy THEN PErr("IndexError")      \* transcription[-1] of ''
                                   ELSE [st |-> "ok", key |-> Upto(line, sp1 - 1), emb |-> e, text |-> <<>>])
              ELSE [st |-> "ok", key |-> Upto(line, sp1 - 1), emb |-> e,
                    text |-> IF rest[Len(rest)] = "n" THEN Upto(rest, Len(rest) - 1) ELSE rest]
\* iteration over a text file: a line ends after its newline, the last one may lack it
NextLine(rest) == LET i == FirstIdx(rest, "n") IN IF i = 0 THEN rest ELSE Upto(rest, i)
\* transcriptions[image_id] = transcription on a dict: a known key keeps its place, the value is replaced
Put(acc, k, v) == IF \E j \in DOMAIN acc : acc[j][1] = k
                  THEN [j \in DOMAIN acc |-> IF acc[j][1] = k THEN <<k, v>> ELSE acc[j]]
                  ELSE Append(acc, <<k, v>>)
Skipped(line) == ~Legacy /\ line = <<"n">>      \* intended: a blank line is passed over; today `len(line) == 0` never holds

Dicts1 == {<< <<k, v>> >> : k \in Str(K1), v \in Str(V1)}
Dicts2 == {<< <<k1, v1>>, <<k2, v2>> >> : k1 \in Str(K2), v1 \in Str(V2), k2 \in Str(K2), v2 \in Str(V2)}
Dicts == {<<>>} \cup Dicts1 \cup {d \in Dicts2 : d[1][1] # d[2][1]}
T_Start(mode, emb, d, file) ==
    [pc |-> CASE mode = "roundtrip" -> "save" [] mode = "load" -> "load" [] OTHER -> "parse",
     mode |-> mode, emb |-> emb, d |-> d, file |-> file, si |-> 1, rest |-> file, lineno |-> 0, loaded |-> <<>>,
     errline |-> 0, parsed |-> PErr("none"), outcome |-> "running"]
T_Init == /\ io \in {T_Start("roundtrip", emb, d, <<>>) : emb \in BOOLEAN, d \in Dicts}
                \cup {T_Start("load", emb, <<>>, f) : emb \in BOOLEAN, f \in Str(MaxFile)}
                \cup {T_Start("parse", emb, <<>>, f) : emb \in BOOLEAN, f \in Str(MaxLine)}
          /\ fa = Idle /\ tl = Idle /\ de = Idle

\* f.write('{} {}\n'.format(key, transcriptions[key])) for the next key of the dictionary
T_SaveKey == /\ io.pc = "save" /\ io.si <= Len(io.d)
             /\ io' = [io EXCEPT !.si = @ + 1, !.file = @ \o io.d[io.si][1] \o <<"s">> \o io.d[io.si][2] \o <<"n">>]
\* the file is closed; load_transcriptions opens it
T_SaveClose == /\ io.pc = "save" /\ io.si > Len(io.d)
               /\ io' = [io EXCEPT !.pc = "load", !.rest = io.file]
\* one iteration of `for line_no, line in enumerate(f)`
T_LoadLine == /\ io.pc = "load" /\ io.rest # <<>>
              /\ LET line == NextLine(io.rest)
                     r == ParseLine(line, io.emb)
                     nxt == [io EXCEPT !.rest = From(io.rest, Len(line) + 1), !.lineno = @ + 1] IN
                 IF Skipped(line) THEN io' = nxt
                 ELSE IF r.st = "ValueError" THEN io' = [io EXCEPT !.pc = "done", !.outcome = "ValueError", !.errline = io.lineno, !.loaded = <<>>]
                 ELSE IF r.st = "IndexError" THEN io' = [io EXCEPT !.pc = "done", !.outcome = "IndexError", !.loaded = <<>>]
                 ELSE io' = [nxt EXCEPT !.loaded = Put(@, r.key, r.text)]
T_LoadEnd == /\ io.pc = "load" /\ io.rest = <<>>
             /\ io' = [io EXCEPT !.pc = "done", !.outcome = "ok"]
\* one direct call of parse_transcription_line on an arbitrary string (newlines anywhere)
T_Parse == /\ io.pc = "parse"
           /\ LET r == ParseLine(io.file, io.emb) IN
              io' = [io EXCEPT !.pc = "done", !.parsed = r, !.outcome = r.st]
T_Step == T_SaveKey \/ T_SaveClose \/ T_LoadLine \/ T_LoadEnd \/ T_Parse
T_Next == T_Step /\ UNCHANGED <<fa, tl, de>>
T_Spec == T_Init /\ [][T_Next]_vars /\ WF_vars(T_Next)

\* ------------------------------------------------ properties ------------------------------------------------
T_On == io.pc # "idle"
T_Done == T_On /\ io.pc = "done"
T_TypeOK == T_On => /\ io.pc \in {"save", "load", "parse", "done"}
                    /\ (io.pc = "done") <=> (io.outcome # "running")
\* ValueError ("Failed to parse line N of file F" / not enough values to unpack) is the documented refusal
T_OnlyDocumentedErrors == T_On => io.outcome \in {"running", "ok", "ValueError"}

NoNL(s) == \A i \in DOMAIN s : s[i] # "n"
KeyOK(k) == \A i \in DOMAIN k : k[i] \notin {"s", "n"}
HasSp(s) == \E i \in DOMAIN s : s[i] = "s"
AfterSp(s) == From(s, FirstIdx(s, "s") + 1)
\* THE PRECONDITION of the round trip.  Without embeddings: no key holds a space or a newline, no value holds a newline (empty
\* keys, empty values, values with spaces anywhere are fine).  With embeddings_in_transcripts the values are "<embedding> <text>"
\* and come back as <text>: in addition every value holds a space (what precedes the first one is the embedding).
RoundTripPre(d, emb) == \A j \in DOMAIN d : KeyOK(d[j][1]) /\ NoNL(d[j][2]) /\ (emb => HasSp(d[j][2]))
Expected(d, emb) == [j \in DOMAIN d |-> <<d[j][1], IF emb THEN AfterSp(d[j][2]) ELSE d[j][2]>>]
AsSet(s) == {s[j] : j \in DOMAIN s}
RoundTrips == /\ io.outcome = "ok"
              /\ io.emb => \A j \in DOMAIN io.d : HasSp(io.d[j][2])
              /\ AsSet(io.loaded) = AsSet(Expected(io.d, io.emb))            \* equality of dictionaries
\* the precondition is exact: every dictionary that satisfies it comes back, every other one comes back different or raises
T_RoundTripExact == (T_Done /\ io.mode = "roundtrip") => (RoundTrips <=> RoundTripPre(io.d, io.emb))
\* ... and then the keys come back in the order they were written
T_RoundTripOrder == (T_Done /\ io.mode = "roundtrip" /\ RoundTripPre(io.d, io.emb)) => io.loaded = Expected(io.d, io.emb)
\* what save_transcriptions writes is one line per key (also for an empty dictionary: an empty file)
T_SavedShape == (T_On /\ io.mode = "roundtrip" /\ io.pc # "save") =>
                   Len(io.file) = SumSeq([j \in DOMAIN io.d |-> Len(io.d[j][1]) + Len(io.d[j][2]) + 2])

\* load_transcriptions as a function of the file content (the loop above must compute exactly this)
RECURSIVE LoadF(_, _, _, _)
LoadF(rest, emb, acc, no) ==
    IF rest = <<>> THEN [st |-> "ok", d |-> acc, errline |-> 0]
    ELSE LET line == NextLine(rest)
             r == ParseLine(line, emb)
             more == From(rest, Len(line) + 1) IN
         IF Skipped(line) THEN LoadF(more, emb, acc, no + 1)
         ELSE IF r.st # "ok" THEN [st |-> r.st, d |-> <<>>, errline |-> IF r.st = "ValueError" THEN no ELSE 0]
         ELSE LoadF(more, emb, Put(acc, r.key, r.text), no + 1)
Load(f, emb) == LoadF(f, emb, <<>>, 0)
T_LoopIsLoad == (T_Done /\ io.mode # "parse") =>
                   Load(io.file, io.emb) = [st |-> io.outcome, d |-> io.loaded, errline |-> io.errline]
RECURSIVE LinesOf(_)
LinesOf(f) == IF f = <<>> THEN <<>> ELSE LET l == NextLine(f) IN <<l>> \o LinesOf(From(f, Len(l) + 1))
RECURSIVE Concat(_)
Concat(ss) == IF ss = <<>> THEN <<>> ELSE Head(ss) \o Concat(Tail(ss))
StripBlank(f) == Concat(SelectSeq(LinesOf(f), LAMBDA l : l # <<"n">>))
\* duplicate keys: the last line of a key wins, the key keeps the place of its first line
T_LastWins == (T_Done /\ io.mode = "load" /\ io.outcome = "ok") =>
                 LET ls == SelectSeq(LinesOf(io.file), LAMBDA l : ~Skipped(l))
                     ps == [j \in DOMAIN ls |-> ParseLine(ls[j], io.emb)]
                     first(k) == CHOOSE j \in DOMAIN ps : ps[j].key = k /\ \A m \in 1..(j - 1) : ps[m].key # k
                     last(k) == CHOOSE j \in DOMAIN ps : ps[j].key = k /\ \A m \in (j + 1)..Len(ps) : ps[m].key # k IN
                 /\ {io.loaded[j][1] : j \in DOMAIN io.loaded} = {ps[j].key : j \in DOMAIN ps}
                 /\ \A a, b \in DOMAIN io.loaded : a # b => io.loaded[a][1] # io.loaded[b][1]
                 /\ \A a \in DOMAIN io.loaded : io.loaded[a][2] = ps[last(io.loaded[a][1])].text
                 /\ \A a, b \in DOMAIN io.loaded : a < b => first(io.loaded[a][1]) < first(io.loaded[b][1])
\* a refused file names its first unparsable line (0-based), everything before it parses
T_ErrLine == (T_Done /\ io.mode = "load" /\ io.outcome = "ValueError") =>
                LET ls == LinesOf(io.file) IN
                /\ io.errline + 1 \in DOMAIN ls
                /\ ParseLine(ls[io.errline + 1], io.emb).st = "ValueError"
                /\ \A j \in 1..io.errline : Skipped(ls[j]) \/ ParseLine(ls[j], io.emb).st = "ok"
\* blank lines do not matter: the file without them loads to the same dictionary (fails today: the blank line is refused)
T_BlankLinesIgnored == (T_Done /\ io.mode = "load") =>
                          LET a == Load(io.file, io.emb)
                              b == Load(StripBlank(io.file), io.emb) IN
                          a.st = b.st /\ a.d = b.d
\* the newline of the last line is optional (fails today with IndexError when the last line ends with the separating space)
T_FinalNewlineOptional == (T_Done /\ io.mode = "load" /\ io.file # <<>> /\ io.file[Len(io.file)] # "n") =>
                             LET a == Load(io.file, io.emb)
                                 b == Load(io.file \o <<"n">>, io.emb) IN
                             a.st = b.st /\ a.d = b.d
\* parse_transcription_line: the id holds no space, the embedding is absent exactly without the flag, and the line is rebuilt from the parts
T_ParseParts == (T_Done /\ io.mode = "parse" /\ io.outcome = "ok") =>
                   LET r == io.parsed
                       body == r.key \o <<"s">> \o (IF io.emb THEN r.emb \o <<"s">> ELSE <<>>) \o r.text IN
                   /\ ~HasSp(r.key) /\ (io.emb => ~HasSp(r.emb)) /\ (~io.emb => r.emb = <<>>)
                   /\ io.file \in {body, body \o <<"n">>}
T_Terminates == <>(io.pc = "done")
=============================================================================
