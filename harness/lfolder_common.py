"""Folder level of C09 (spec/LogitsFolder.tla): the real user_scripts/parse_folder.Computator stores PAGE XML + logits + ALTO
for a batch of pages (first run, stub recognition stage) and rebuilds every page from the two folders in a second run (stub
decoding stage that only reads what it is given).  Page ids are token sequences of the model ("x", "y", ".")."""
import contextlib
import io
import itertools
import os
import re
import shutil
import tempfile

import numpy as np
from scipy import sparse

from .pf_common import pf
from pero_ocr.core.layout import PageLayout, RegionLayout, TextLine

CONCRETE = {"x": "pg", "y": "q7", ".": "."}
CHARS = list("abcdefgh ") + ["<blank>"]
BLANK = len(CHARS) - 1
WORDS = ["abc de", "fgh ab", "ca fe", "bad egg", "he had", "a cab", "dab", "gag bee", "fad ace", "hag"]


def name_of(tokens):
    return "".join(CONCRETE[t] for t in tokens)


def all_ids(maxlen):
    out = []
    for n in range(1, maxlen + 1):
        for s in itertools.product("xy.", repeat=n):
            if s[0] != "." and s[-1] != ".":
                out.append(list(s))
    return out


def _seed(tokens, i):
    return (sum((k + 1) * (ord(t) + 7) for k, t in enumerate(tokens)) * 31 + i) % 100003


def texts_of(tokens):
    return [WORDS[_seed(tokens, i) % len(WORDS)] + (" " + WORDS[_seed(tokens, i + 5) % len(WORDS)]) for i in range(2)]


def make_logits(text, seed):
    rng = np.random.RandomState(seed)
    frames = [BLANK, BLANK]
    for ch in text:
        frames += [CHARS.index(ch), CHARS.index(ch), BLANK]
    dense = rng.uniform(-6.0, -3.0, size=(len(frames), len(CHARS)))
    dense[rng.rand(*dense.shape) < 0.5] = 0.0
    for t, k in enumerate(frames):
        dense[t, k] = 9.0 + rng.rand()
    return sparse.csc_matrix(dense.astype(np.float32))


def greedy(logprobs):
    best = np.argmax(logprobs, axis=1)
    out, last = [], BLANK
    for k in best:
        if k != last and k != BLANK:
            out.append(CHARS[k])
        last = k
    return "".join(out)


class Recogniser:
    """stands for a PageParser with RUN_OCR: attaches logits, character table, frame window and transcription"""
    provides_ctc_logits = True

    def __init__(self, by_name):
        self.by_name = by_name
        self.produced = {}

    def process_page(self, image, page_layout):
        tokens = self.by_name[page_layout.id]
        for i, line in enumerate(page_layout.lines_iterator()):
            text = texts_of(tokens)[i]
            line.logits = make_logits(text, _seed(tokens, i))
            line.characters = list(CHARS)
            line.logit_coords = [2, line.logits.shape[0]]
            line.transcription = greedy(line.get_full_logprobs())
            self.produced[(page_layout.id, line.id)] = (line.logits.toarray().copy(), list(line.characters), list(line.logit_coords),
                                                        line.transcription)
        return page_layout


class Redecoder:
    """stands for a PageParser with RUN_DECODER only: re-decodes every line from the logits it was given"""
    provides_ctc_logits = False

    def __init__(self):
        self.seen = {}

    def process_page(self, image, page_layout):
        for line in page_layout.lines_iterator():
            self.seen[(page_layout.id, line.id)] = (None if line.logits is None else line.logits.toarray().copy(),
                                                    None if line.characters is None else list(line.characters),
                                                    None if line.logit_coords is None else list(line.logit_coords),
                                                    line.transcription)
            if line.logits is not None:
                line.transcription = greedy(line.get_full_logprobs())
        return page_layout


def empty_layout(page_id):
    page = PageLayout(id=page_id, page_size=(300, 700))
    region = RegionLayout("r1", np.array([[10, 10], [650, 10], [650, 290], [10, 290]], dtype=np.float64))
    for i, y in enumerate((60, 140)):
        region.lines.append(TextLine(id="r1-l%d" % (i + 1), baseline=np.array([[20, y], [620, y]], dtype=np.float64),
                                     polygon=np.array([[20, y - 20], [620, y - 20], [620, y + 8], [20, y + 8]], dtype=np.float64),
                                     heights=np.array([20.0, 8.0])))
    page.regions = [region]
    return page


def alto_words(path):
    with open(path, encoding="utf-8") as f:
        return re.findall(r'<String CONTENT="([^"]*)"', f.read())


_WORK = {"dir": None}


def set_workdir(path):
    _WORK["dir"] = path


def run_folder(case):
    """case = {"pages": [token lists]}: store every page (first run), then rebuild every page (second run)"""
    import logging
    logging.disable(logging.CRITICAL)
    pages = case["pages"]
    names = [name_of(p) for p in pages]
    by_name = dict(zip(names, pages))
    rec = {"pages": pages, "events": [], "outcome": "ok", "notes": []}
    tmp = tempfile.mkdtemp(prefix="lfolder_", dir=_WORK["dir"])
    try:
        d = {k: os.path.join(tmp, k) for k in ("in_xml", "xml1", "logits1", "alto1", "xml2", "alto2")}
        for path in d.values():
            os.makedirs(path)
        for nm in names:
            empty_layout(nm).to_pagexml(os.path.join(d["in_xml"], nm + ".xml"))
        sink = io.StringIO()
        rg = Recogniser(by_name)
        run1 = pf.Computator(rg, None, d["in_xml"], None, None, d["logits1"], d["alto1"], d["xml1"], None)
        alto1 = {}
        with contextlib.redirect_stdout(sink), contextlib.redirect_stderr(sink):
            for i, nm in enumerate(names):
                run1(None, nm, i, len(names))
                rec["events"].append({"op": "store", "page": by_name[nm]})
                p = os.path.join(d["alto1"], nm + ".xml")
                alto1[nm] = alto_words(p) if os.path.exists(p) else None
        rd = Redecoder()
        run2 = pf.Computator(rd, None, d["xml1"], d["logits1"], None, None, d["alto2"], d["xml2"], None)
        with contextlib.redirect_stdout(sink), contextlib.redirect_stderr(sink):
            for i, nm in enumerate(names):
                run2(None, nm, i, len(names))
                # whose PAGE XML did the stage see (transcriptions of the first run), whose logits
                seen = [rd.seen.get((nm, "r1-l%d" % (k + 1))) for k in range(2)]
                xml_tag, lg_tag, same = ["?"], ["?"], True
                if all(s is not None for s in seen):
                    for q in [nm] + [x for x in names if x != nm]:       # the page's own artefacts are recognised first
                        prod = [rg.produced.get((q, "r1-l%d" % (k + 1))) for k in range(2)]
                        if all(pr is not None for pr in prod):
                            if [s[3] for s in seen] == [pr[3] for pr in prod] and xml_tag == ["?"]:
                                xml_tag = by_name[q]
                            if lg_tag == ["?"] and all(s[0] is not None and s[0].shape == pr[0].shape and np.array_equal(s[0], pr[0])
                                                       for s, pr in zip(seen, prod)):
                                lg_tag = by_name[q]
                    own = [rg.produced.get((nm, "r1-l%d" % (k + 1))) for k in range(2)]
                    same = all(o is not None and s[0] is not None and s[0].shape == o[0].shape and np.array_equal(s[0], o[0])
                               and s[1] == o[1] and s[2] == o[2] for s, o in zip(seen, own))
                    x2 = os.path.join(d["xml2"], nm + ".xml")
                    a2 = os.path.join(d["alto2"], nm + ".xml")
                    if not (os.path.exists(x2) and os.path.exists(a2)):
                        same = False
                        rec["notes"].append("%s: second run wrote no PAGE XML / ALTO" % nm)
                    else:
                        t2 = [ln.transcription for ln in PageLayout(file=x2).lines_iterator()]
                        if t2 != [o[3] for o in own if o is not None] or alto_words(a2) != alto1[nm]:
                            same = False
                            rec["notes"].append("%s: re-decoded %r, ALTO %r; first run %r, ALTO %r" % (
                                nm, t2, alto_words(a2), [o[3] for o in own if o is not None], alto1[nm]))
                else:
                    same = False
                    rec["notes"].append("%s: the second run did not reach the decoding stage" % nm)
                rec["events"].append({"op": "rebuild", "page": by_name[nm], "xml": xml_tag, "logits": lg_tag, "same": bool(same)})
        rec["files"] = sorted(os.listdir(d["logits1"]))
    except Exception as ex:      # part of the observation
        rec["outcome"] = "exception:" + type(ex).__name__
    finally:
        shutil.rmtree(tmp, ignore_errors=True)
    return rec
