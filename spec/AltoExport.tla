---------------------------- MODULE AltoExport ----------------------------
(* C06: PageLayout.to_altoxml_string / from_altoxml (pero_ocr/core/layout.py:400-651) as a state machine.

   A page is a sequence of blocks (integer rectangle + lines); a line is a string of character-class tokens
   (ArabicOps) plus an *alignment situation* that decides which branch of the export it takes:

     "peaky" "mid" "diffuse"  character table + posteriors with 2n+1 frames (n = length of the text), frame window known
     "window"                 the same inside a larger matrix, logit_coords = [2, 2n+3]
     "unkwin"                 the same, logit_coords = [None, None]            (unknown frame window: whole matrix)
     "tight"                  n frames (alignable iff no two neighbouring labels are equal)
     "tightwin"               the same n frames inside a larger matrix, logit_coords = [2, n+2] (as many frames in the window as
                              characters, but more frames than characters in the stored matrix)
     "short"                  1 frame  (alignable iff n = 1)
     "nocoords"               logit_coords = None                              -> TypeError, caught: fallback branch
     "charsnone"              posteriors present, character table None        -> TypeError, caught: fallback branch
     "nochars"                no character table, no posteriors                -> TypeError, caught: fallback branch
     "nologits"               character table present, posteriors None        -> AttributeError (Legacy "attr": not caught)

   One action per step of the real loop: BeginBlock (TextBlock element + print-space accumulation), SkipLine,
   StartLine, MapLabels, AlignOk / AlignFail, SegmentWords, EmitWord, EmitSP, EndWords, FallbackWord, EndFallback,
   ConfidenceFilter, EndBlock, Finish (margins + print space), Import (from_altoxml of the produced file).
   The line confidence is the median of character confidences in the code; here it is an arbitrary member of
   ConfLevels on the aligned branch and 0 on the fallback branch.

   The module describes the REPAIRED export.  Legacy \subseteq {"cut", "ps", "arabic", "attr"} re-enables the four
   defects of the tree the check was built on:
     "cut"    words are cut at U+0020 only but named from str.split()          (IndexError / lost words)
     "ps"     print-space bottom/right accumulate from the page size           (box always reaches the page edge)
     "arabic" fallback branch exports Arabic words in label order
     "attr"   AttributeError of  line.logits.shape  is not caught                                          *)
EXTENDS ArabicOps, Integers, TLC
CONSTANTS Mode,        \* "line": one block, one line over Strs x Situations;  "page": <= MaxBlocks blocks with <= MaxLines
                       \* lines each over Strs x Situations;  "blocks": <= MaxBlocks rectangles of the grid, one fixed line each
          Classes, MaxLen, Situations,
          MaxBlocks, MaxLines, GridW, GridH,
          ConfLevels,  \* confidences an aligned line may get (naturals; the trace layer uses millionths)
          MinConfs,    \* requested min_line_confidence values
          Legacy

Strs == UNION {[1..n -> Classes] : n \in 0..MaxLen}
Max(a, b) == IF a >= b THEN a ELSE b
Min(a, b) == IF a <= b THEN a ELSE b

\* ---- text vocabulary ---------------------------------------------------------------------------------
\* str.split(): maximal runs of non-white-space characters
RECURSIVE SplitWs(_, _)
SplitWs(t, w) == IF t = <<>> THEN (IF w = <<>> THEN <<>> ELSE <<w>>)
                 ELSE IF IsWs(Head(t)) THEN (IF w = <<>> THEN <<>> ELSE <<w>>) \o SplitWs(Tail(t), <<>>)
                 ELSE SplitWs(Tail(t), Append(w, Head(t)))
Split(t) == SplitWs(t, <<>>)
Blank(t) == Split(t) = <<>>              \* not transcription or transcription.strip() == ""
\* ArabicHelper.is_arabic_line: some word consists of characters of the Arabic ranges only
ArabicLine(t) == \E k \in 1..Len(Split(t)) : \A i \in 1..Len(Split(t)[k]) : InArabicRange(Split(t)[k][i])
\* the content a word must be exported with
Conv(t, word) == IF ArabicLine(t) THEN Rev(word) ELSE word
RECURSIVE JoinSp(_)
JoinSp(ws) == IF ws = <<>> THEN <<>> ELSE IF Len(ws) = 1 THEN ws[1] ELSE ws[1] \o <<"s">> \o JoinSp(Tail(ws))

\* the export's own segmentation on the aligned branch: cut positions, then the spans between two cuts
\* that are not adjacent
CutAt(c) == IF "cut" \in Legacy THEN c = "s" ELSE IsWs(c)
RECURSIVE CutPos(_, _)
CutPos(t, i) == IF i > Len(t) THEN <<>> ELSE (IF CutAt(t[i]) THEN <<i>> ELSE <<>>) \o CutPos(t, i + 1)
Cuts(t) == <<0>> \o CutPos(t, 1) \o <<Len(t) + 1>>
RECURSIVE SpansFrom(_, _)
SpansFrom(c, i) == IF i >= Len(c) THEN <<>>
                   ELSE (IF c[i] # c[i+1] - 1 THEN <<<<c[i] + 1, c[i+1] - 1>>>> ELSE <<>>) \o SpansFrom(c, i + 1)
Spans(t) == SpansFrom(Cuts(t), 1)

\* ---- label mapping and alignability ------------------------------------------------------------------
\* index in the character table used by the driver; characters outside it (and white space other than
\* U+0020) get label 0
LabelOf(c) == CASE c = "a" -> 1 [] c = "b" -> 2 [] c = "s" -> 3 [] c = "d" -> 4 [] c = "A" -> 5
                [] c = "B" -> 6 [] c = "C" -> 7 [] c = "n" -> 8 [] OTHER -> 0
Labels(t) == [i \in 1..Len(t) |-> LabelOf(t[i])]
\* a CTC alignment needs one frame per label plus a blank frame between equal neighbours
MinFrames(lab) == Len(lab) + Cardinality({i \in 1..(Len(lab) - 1) : lab[i] = lab[i+1]})
HasChars(s)  == s \notin {"nochars", "charsnone"}
HasLogits(s) == s \notin {"nochars", "nologits"}
CoordsOK(s)  == s # "nocoords"
Frames(s, n) == IF s = "short" THEN 1 ELSE IF s \in {"tight", "tightwin"} THEN n ELSE 2 * n + 1

\* ---- input domain ------------------------------------------------------------------------------------
LineKinds == {[text |-> t, sit |-> s] : t \in Strs, s \in Situations}
SeqsUpTo(S, lo, hi) == UNION {[1..n -> S] : n \in lo..hi}
Rects == {<<x1, y1, x2, y2>> : x1 \in 0..GridW, y1 \in 0..GridH, x2 \in 0..GridW, y2 \in 0..GridH}
GridRects == {r \in Rects : r[1] < r[3] /\ r[2] < r[4]}
\* in the text modes block k is the k-th horizontal band of the page, full width (so that the print space is
\* the whole page and the print-space clause is exercised by the "blocks" mode only)
Band(k, n) == <<0, (k - 1) * GridH, GridW, k * GridH>>
Pages ==
  IF Mode = "line"
  THEN {[W |-> GridW, H |-> GridH, blocks |-> <<[rect |-> Band(1, 1), lines |-> <<lk>>]>>] : lk \in LineKinds}
  ELSE IF Mode = "page"
  THEN UNION {{[W |-> GridW, H |-> n * GridH,
                blocks |-> [k \in 1..n |-> [rect |-> Band(k, n), lines |-> ls[k]]]] :
                   ls \in [1..n -> SeqsUpTo(LineKinds, 0, MaxLines)]} : n \in 1..MaxBlocks}
  ELSE {[W |-> GridW, H |-> GridH,
         blocks |-> [k \in 1..Len(rs) |-> [rect |-> rs[k], lines |-> <<[text |-> <<"a">>, sit |-> "nochars"]>>]]] :
            rs \in SeqsUpTo(GridRects, 1, MaxBlocks)}

VARIABLES page, minconf,
          b, l,       \* blocks begun, lines of the current block finished
          pc,         \* "block" "line" "map" "align" "segment" "emit" "sp" "fallback" "filter" "import" "done" "halt"
          cur,        \* the line in progress: [spans, w, conf]
          out,        \* the ALTO file so far: per TextBlock [rect = <<HPOS,VPOS,WIDTH,HEIGHT>>, lines = <<[tag, items]>>]
          acc,        \* print-space accumulators
          geo,        \* PrintSpace and margin rectangles <<HPOS,VPOS,WIDTH,HEIGHT>>, set by Finish
          confs,      \* line tag |-> confidence the export computed (history variable for the filter clause)
          imp,        \* result of re-importing: per block, per line, the words
          status      \* "running" | "done" | "IndexError" | "AttributeError"
vars == <<page, minconf, b, l, pc, cur, out, acc, geo, confs, imp, status>>

\* lines are identified by their position in layout order (the driver encodes it in the line's VPOS)
RECURSIVE LinesBefore(_, _)
LinesBefore(p, k) == IF k <= 1 THEN 0 ELSE LinesBefore(p, k - 1) + Len(p.blocks[k - 1].lines)
TagOf(p, k, j) == LinesBefore(p, k) + j
Line == page.blocks[b].lines[l + 1]
Cur0 == [spans |-> <<>>, w |-> 0, conf |-> 0]
NoRect == <<0, 0, 0, 0>>
Geo0 == [ps |-> NoRect, top |-> NoRect, left |-> NoRect, right |-> NoRect, bottom |-> NoRect]

Init == /\ page \in Pages /\ minconf \in MinConfs
        /\ b = 0 /\ l = 0 /\ pc = "block" /\ cur = Cur0 /\ out = <<>>
        /\ acc = [vpos |-> page.H, hpos |-> page.W, height |-> 0, width |-> 0, bottom |-> 0, right |-> 0]
        /\ geo = Geo0 /\ confs = <<>> /\ imp = <<>> /\ status = "running"

\* append an item to the line under construction (last line of the last block)
AddItem(it) == LET nb == Len(out)
                   nl == Len(out[nb].lines)
               IN  [out EXCEPT ![nb].lines[nl].items = Append(@, it)]
StringItem(c) == [k |-> "S", c |-> c]
SpItem == [k |-> "SP", c |-> <<>>]

BeginBlock ==
  /\ pc = "block" /\ b < Len(page.blocks)
  /\ LET r == page.blocks[b + 1].rect
         bh == r[4] - r[2]
         bw == r[3] - r[1]
         bv == r[2]
         bhp == r[1]
         v1 == Min(acc.vpos, bv)
         h1 == Min(acc.hpos, bhp)
         \* legacy: the running bottom/right are re-derived from vpos + height, which start at the page size
         bot1 == IF "ps" \in Legacy THEN Max(acc.vpos + acc.height, bv + bh) ELSE Max(acc.bottom, bv + bh)
         rig1 == IF "ps" \in Legacy THEN Max(acc.hpos + acc.width, bhp + bw) ELSE Max(acc.right, bhp + bw)
     IN  /\ out' = Append(out, [rect |-> <<bhp, bv, bw, bh>>, lines |-> <<>>])
         /\ acc' = [vpos |-> v1, hpos |-> h1, height |-> bot1 - v1, width |-> rig1 - h1, bottom |-> bot1, right |-> rig1]
  /\ b' = b + 1 /\ l' = 0 /\ pc' = "line"
  /\ UNCHANGED <<page, minconf, cur, geo, confs, imp, status>>

EndBlock == /\ pc = "line" /\ l = Len(page.blocks[b].lines)
            /\ pc' = "block"
            /\ UNCHANGED <<page, minconf, b, l, cur, out, acc, geo, confs, imp, status>>

SkipLine == /\ pc = "line" /\ l < Len(page.blocks[b].lines) /\ Blank(Line.text)
            /\ l' = l + 1
            /\ UNCHANGED <<page, minconf, b, pc, cur, out, acc, geo, confs, imp, status>>

StartLine == /\ pc = "line" /\ l < Len(page.blocks[b].lines) /\ ~Blank(Line.text)
             /\ out' = [out EXCEPT ![b].lines = Append(@, [tag |-> TagOf(page, b, l + 1), items |-> <<>>])]
             /\ cur' = Cur0 /\ pc' = "map"
             /\ UNCHANGED <<page, minconf, b, l, acc, geo, confs, imp, status>>

\* the try block up to the label loop: len(line.characters), line.logits.shape, the labels themselves
MapLabels ==
  /\ pc = "map"
  /\ IF ~HasChars(Line.sit) THEN pc' = "fallback" /\ UNCHANGED status                 \* TypeError, caught
     ELSE IF ~HasLogits(Line.sit)
          THEN IF "attr" \in Legacy THEN pc' = "halt" /\ status' = "AttributeError"    \* not caught
               ELSE pc' = "fallback" /\ UNCHANGED status
          ELSE pc' = "align" /\ UNCHANGED status
  /\ UNCHANGED <<page, minconf, b, l, cur, out, acc, geo, confs, imp>>

Alignable == /\ CoordsOK(Line.sit)                                                      \* else TypeError, caught
             /\ Frames(Line.sit, Len(Line.text)) >= MinFrames(Labels(Line.text))        \* else ValueError, caught
AlignOk(c) == /\ pc = "align" /\ Alignable
              /\ cur' = [cur EXCEPT !.conf = c] /\ pc' = "segment"
              /\ UNCHANGED <<page, minconf, b, l, out, acc, geo, confs, imp, status>>
AlignFail == /\ pc = "align" /\ ~Alignable
             /\ pc' = "fallback"
             /\ UNCHANGED <<page, minconf, b, l, cur, out, acc, geo, confs, imp, status>>

SegmentWords == /\ pc = "segment"
                /\ cur' = [cur EXCEPT !.spans = Spans(Line.text), !.w = 0]
                /\ pc' = "emit"
                /\ UNCHANGED <<page, minconf, b, l, out, acc, geo, confs, imp, status>>

\* one String per span, named after the w-th word of str.split()
EmitWord == /\ pc = "emit" /\ cur.w < Len(cur.spans)
            /\ IF cur.w + 1 > Len(Split(Line.text))
               THEN pc' = "halt" /\ status' = "IndexError" /\ UNCHANGED out
               ELSE /\ out' = AddItem(StringItem(Conv(Line.text, Split(Line.text)[cur.w + 1])))
                    /\ pc' = "sp" /\ UNCHANGED status
            /\ UNCHANGED <<page, minconf, b, l, cur, acc, geo, confs, imp>>
EmitSP == /\ pc = "sp"
          /\ out' = IF cur.w # Len(Split(Line.text)) - 1 THEN AddItem(SpItem) ELSE out
          /\ cur' = [cur EXCEPT !.w = @ + 1] /\ pc' = "emit"
          /\ UNCHANGED <<page, minconf, b, l, acc, geo, confs, imp, status>>
EndWords == /\ pc = "emit" /\ cur.w = Len(cur.spans)
            /\ pc' = "filter"
            /\ UNCHANGED <<page, minconf, b, l, cur, out, acc, geo, confs, imp, status>>

\* except branch: confidence 0, one String per word of str.split(), no SP elements
FallbackWord == /\ pc = "fallback" /\ cur.w < Len(Split(Line.text))
                /\ LET word == Split(Line.text)[cur.w + 1]
                   IN  out' = AddItem(StringItem(IF "arabic" \in Legacy THEN word ELSE Conv(Line.text, word)))
                /\ cur' = [cur EXCEPT !.w = @ + 1, !.conf = 0]
                /\ UNCHANGED <<page, minconf, b, l, pc, acc, geo, confs, imp, status>>
EndFallback == /\ pc = "fallback" /\ cur.w = Len(Split(Line.text))
               /\ cur' = [cur EXCEPT !.conf = 0] /\ pc' = "filter"
               /\ UNCHANGED <<page, minconf, b, l, out, acc, geo, confs, imp, status>>

ConfidenceFilter ==
  /\ pc = "filter"
  /\ confs' = confs @@ (TagOf(page, b, l + 1) :> cur.conf)
  /\ out' = IF cur.conf < minconf
            THEN [out EXCEPT ![b].lines = SubSeq(@, 1, Len(@) - 1)]       \* text_block.remove(text_line)
            ELSE out
  /\ l' = l + 1 /\ pc' = "line"
  /\ UNCHANGED <<page, minconf, b, cur, acc, geo, imp, status>>

Finish ==
  /\ pc = "block" /\ b = Len(page.blocks)
  /\ geo' = [ps     |-> <<acc.hpos, acc.vpos, acc.width, acc.height>>,
             top    |-> <<0, 0, page.W, acc.vpos>>,
             left   |-> <<0, 0, acc.hpos, page.H>>,
             right  |-> <<acc.hpos + acc.width, 0, page.W - (acc.hpos + acc.width), page.H>>,
             bottom |-> <<0, acc.vpos + acc.height, page.W, page.H - (acc.vpos + acc.height)>>]
  /\ pc' = "import"
  /\ UNCHANGED <<page, minconf, b, l, cur, out, acc, confs, imp, status>>

RECURSIVE ContentsOf(_)
ContentsOf(items) == IF items = <<>> THEN <<>>
                     ELSE (IF items[1].k = "S" THEN <<items[1].c>> ELSE <<>>) \o ContentsOf(Tail(items))
\* from_altoxml: the CONTENT attributes of a line joined by single blanks become the transcription
Import == /\ pc = "import"
          /\ imp' = [k \in 1..Len(out) |-> [j \in 1..Len(out[k].lines) |-> Split(JoinSp(ContentsOf(out[k].lines[j].items)))]]
          /\ pc' = "done" /\ status' = "done"
          /\ UNCHANGED <<page, minconf, b, l, cur, out, acc, geo, confs>>

Det == \/ BeginBlock \/ EndBlock \/ SkipLine \/ StartLine \/ MapLabels \/ AlignFail \/ SegmentWords
       \/ EmitWord \/ EmitSP \/ EndWords \/ FallbackWord \/ EndFallback \/ ConfidenceFilter \/ Finish \/ Import
\* the only choice is the confidence an aligned line gets; the trace layer pins it to the recorded one
Step(c) == Det \/ AlignOk(c)
Next == Det \/ \E c \in ConfLevels : AlignOk(c)
Spec == Init /\ [][Next]_vars

\* ======================================== properties ================================================
Done == status = "done"
\* "ALTO export of a recognised page always succeeds"
NeverFails == status \in {"running", "done"}

\* ---- vocabulary shared with the trace layer: what a correct file looks like for a given page ----------
ExpWords(t) == [k \in 1..Len(Split(t)) |-> Conv(t, Split(t)[k])]
TagsOf(lines) == [j \in 1..Len(lines) |-> lines[j].tag]
\* "every line with a non-blank transcription appears exactly once, in layout order ... only lines below the
\*  requested confidence are dropped": the exported tags of block k are the non-blank lines at or above the threshold
ExpTags(p, k, cf, mc) ==
  LET keep(j) == ~Blank(p.blocks[k].lines[j].text) /\ cf[TagOf(p, k, j)] >= mc
      idx == SelectSeq([j \in 1..Len(p.blocks[k].lines) |-> j], keep)
  IN  [q \in 1..Len(idx) |-> TagOf(p, k, idx[q])]
TextOfTag(p, k, tag) == p.blocks[k].lines[tag - LinesBefore(p, k)].text

LinesOnceInOrder == Done => /\ Len(out) = Len(page.blocks)
                            /\ \A k \in 1..Len(out) : TagsOf(out[k].lines) = ExpTags(page, k, confs, minconf)
\* "the sequence of its word contents equals the whitespace-separated words of the transcription (each word
\*  converted to logical order on Arabic-script lines)"
TextPreserved == Done => \A k \in 1..Len(out) : \A j \in 1..Len(out[k].lines) :
                            LET ln == out[k].lines[j]
                            IN  ln.tag - LinesBefore(page, k) \in 1..Len(page.blocks[k].lines)
                                => ContentsOf(ln.items) = ExpWords(TextOfTag(page, k, ln.tag))
\* the two segmentations agree (what makes EmitWord safe); only true of the repaired rule
SegmentationsAgree == (pc \in {"emit", "sp"}) => Len(cur.spans) = Len(Split(Line.text))
\* an SP element separates two consecutive words and nothing else
SpPattern(items) == /\ Len(items) % 2 = 1
                    /\ \A q \in 1..Len(items) : items[q].k = (IF q % 2 = 1 THEN "S" ELSE "SP")
NoSp(items) == \A q \in 1..Len(items) : items[q].k = "S"
WordsNonEmptyNoWhite == Done => \A k \in 1..Len(out) : \A j \in 1..Len(out[k].lines) :
                           \A wd \in {out[k].lines[j].items[q].c : q \in {q \in 1..Len(out[k].lines[j].items) : out[k].lines[j].items[q].k = "S"}} :
                              wd # <<>> /\ \A i \in 1..Len(wd) : ~IsWs(wd[i])

\* ---- geometry ------------------------------------------------------------------------------------------
\* rectangles are <<HPOS, VPOS, WIDTH, HEIGHT>>
BBoxOf(rs) == LET x1 == CHOOSE m \in {r[1] : r \in rs} : \A r \in rs : m <= r[1]
                  y1 == CHOOSE m \in {r[2] : r \in rs} : \A r \in rs : m <= r[2]
                  x2 == CHOOSE m \in {r[1] + r[3] : r \in rs} : \A r \in rs : m >= r[1] + r[3]
                  y2 == CHOOSE m \in {r[2] + r[4] : r \in rs} : \A r \in rs : m >= r[2] + r[4]
              IN  <<x1, y1, x2 - x1, y2 - y1>>
BlockRects(p) == {LET r == p.blocks[k].rect IN <<r[1], r[2], r[3] - r[1], r[4] - r[2]>> : k \in 1..Len(p.blocks)}
Inside(x, y, r) == r[1] <= x /\ x < r[1] + r[3] /\ r[2] <= y /\ y < r[2] + r[4]
\* exact cover test for integer rectangles: every elementary cell of the arrangement of all rectangle edges lies
\* wholly inside or outside each rectangle, so testing its top-left corner is enough
Covers(W, H, rs) ==
  LET xs == {0} \cup {r[1] : r \in rs} \cup {r[1] + r[3] : r \in rs}
      ys == {0} \cup {r[2] : r \in rs} \cup {r[2] + r[4] : r \in rs}
  IN  \A x \in xs, y \in ys : (0 <= x /\ x < W /\ 0 <= y /\ y < H) => \E r \in rs : Inside(x, y, r)
Margins(g) == {g.top, g.left, g.right, g.bottom}
\* "the print space is the bounding box of the text blocks"
PrintSpaceIsBBox == Done => geo.ps = BBoxOf(BlockRects(page))
\* "with the four margins covering the rest of the page"
MarginsCover == Done => Covers(page.W, page.H, Margins(geo) \cup {geo.ps})
\* design-level extras: margins stay on the page and do not reach into the print space
Overlap(r, q) == Max(r[1], q[1]) < Min(r[1] + r[3], q[1] + q[3]) /\ Max(r[2], q[2]) < Min(r[2] + r[4], q[2] + q[4])
MarginsTidy == Done => \A m \in Margins(geo) : /\ m[3] >= 0 /\ m[4] >= 0 /\ m[1] + m[3] <= page.W /\ m[2] + m[4] <= page.H
                                               /\ ~Overlap(m, geo.ps)

\* ---- re-import ---------------------------------------------------------------------------------------------
\* "re-importing the file returns the same words for every line"
ImportSame == Done => /\ Len(imp) = Len(out)
                      /\ \A k \in 1..Len(out) : imp[k] = [j \in 1..Len(out[k].lines) |-> ContentsOf(out[k].lines[j].items)]
\* design-level: a line that took the aligned branch has the S (SP S)* shape, a fallback line has no SP
ItemShapes == Done => \A k \in 1..Len(out) : \A j \in 1..Len(out[k].lines) :
                         SpPattern(out[k].lines[j].items) \/ NoSp(out[k].lines[j].items)
=============================================================================
