------------------------------ MODULE MergeTool ------------------------------
(* Growth beyond the listed properties (DESIGN.md sections 8 and 12.5): the folder-level behaviour of the tool
   user_scripts/merge_ocr_results.py  main().

   N engine directories (NEng = 1..3) hold, per page, an .xml and a .logits file.  main() lists the FIRST directory
   (extension compared in lower case), applies --filter-list, and for every file name: loads the page from every engine
   (PageLayout(file=..) + load_logits; an engine that fails is reported and skipped), merge_layouts (zip over the lines of
   the loaded engines; an id mismatch ends the run with exit(-1); per line the scan of property C19 - spec/EngineMerge.tla -
   copies transcription, logits, characters and the mean confidence of the most confident engine into the line object of the
   FIRST LOADED engine), --min-confidence filter, --fix-arabic-order, to_pagexml, save_logits into the output directory.

   One action per step of the real code:  List (os.listdir + filters), NextPage / Finish (outer for loop), Load (one iteration of
   `for input_path in input_paths`), MergeStart (call of merge_layouts), MergeLine (one iteration of `for lines in zip(..)`),
   MergeEnd, Filter, FixArabic, WriteXml, WriteLogits.

   Data are provenance tokens.  A cell = what engine e holds for page p:
        st   "ok" | "noxml" | "badxml" | "nolg" | "badlg"    (xml / logits file missing or unreadable)
        cf   sequence (one entry per line) of confidence levels on the ordered scale of EngineMerge.tla:
             0 = no confidence (empty / absent transcription), 2 = exactly 0.0, 4, 6, ... positive means (equal = equal floats)
        idv  variant of the line ids (engines whose variants differ have mismatching ids)
        xc   the confidence the engine's own XML carries on its lines: 0 = none, odd numbers = a value between the even levels
             (3 < every positive level, 9 > every level)
        tn   TRUE: lines without confidence have NO transcription (no TextEquiv, hence no XML confidence either); FALSE: ""
   A merged line holds the engine number of its transcription / logits / characters / logit_coords and a confidence record
   [src, eng, lvl]: "c" = computed mean of level lvl, "x" = still the XML confidence of engine eng, "n" = none.
   The order in which os.listdir yields the pages is not specified: NextPage takes any page that is left.

   Legacy = TRUE is the code as it is today, Legacy = FALSE what is evidently intended; they differ in three places:
     (L1) every engine fails for a page: merge_layouts([]) raises IndexError, which leaves main() - the run stops, later pages are
          lost (intended: the page is reported and skipped, like a failing engine);
     (L2) merge_layouts copies transcription, logits, characters and confidence of the winner but NOT logit_coords: the output
          .logits file pairs the winner's logits with the first loaded engine's logit_coords (intended: copied with the logits);
     (L3) --fix-arabic-order reads the global arabic_helper whose construction is commented out: NameError on the first line of the
          first page that has a line (intended: lines that are not Arabic are left alone; the lines of this model are not Arabic).
   Repaired names the deviations a later tree no longer has, so that its runs can still be validated with Legacy = TRUE.            *)
EXTENDS Naturals, Sequences, FiniteSets, TLC
CONSTANTS NEng, NPages,
          NLs,          \* set of line counts a page may have in an engine's XML
          Confs,        \* confidence levels, subset of {0, 2, 4, 6, ...}
          Stats,        \* cell states, "ok" and some of the failing ones
          IdVars,       \* {0} or {0, 1}
          XConfs,       \* XML-carried confidences, subset of {0, 3, 9}
          TNs,          \* subset of BOOLEAN
          Exts,         \* extension of a page's files: "xml" | "XML" | "txt"
          WithFilter,   \* TRUE: also every --filter-list over the pages
          MinConfs,     \* --min-confidence on the scale: 0 = off, 5 / 7 = between two levels
          FixArs,       \* subset of BOOLEAN: --fix-arabic-order
          Legacy,       \* TRUE: the code as it is today (deviations L1, L2, L3), FALSE: what is intended
          Repaired      \* subset of {"L1", "L2", "L3"}: deviations already repaired in the tree under test (Legacy = TRUE only); {} today

Eng == 1..NEng
Pages == 1..NPages
Leg(d) == Legacy /\ d \notin Repaired
Fails == Stats \ {"ok"}
ASSUME /\ "ok" \in Stats /\ Stats \subseteq {"ok", "noxml", "badxml", "nolg", "badlg"}
       /\ MinConfs \cap XConfs \subseteq {0} /\ \A m \in MinConfs : m = 0 \/ m % 2 = 1

OkCells == UNION {[st : {"ok"}, cf : [1..n -> Confs], idv : IdVars, xc : XConfs, tn : TNs] : n \in NLs}
FailCells == [st : Fails, cf : {<<>>}, idv : {0}, xc : {0}, tn : {FALSE}]     \* what a failing cell holds is never read
Filters == {[on |-> FALSE, ids |-> {}]} \cup (IF WithFilter THEN [on : {TRUE}, ids : SUBSET Pages] ELSE {})
NoPage == [xml |-> FALSE, lgt |-> FALSE, geo |-> 0, lines |-> <<>>]

VARIABLES cell, ext, flt, minc, fixar,          \* the input: engine directories and command line
          todo, cur, pc, e, loaded, l, mg,      \* what main() holds: files_to_process, xml_file_name, loop counters, input_layouts,
                                                \* the lines of input_layouts[0]
          out,                                  \* the output directory: per page what was written
          skipped,                              \* pages given up because no engine could be loaded (intended variant)
          outcome                               \* "running" | "ok" | the exception that leaves main()
input == <<cell, ext, flt, minc, fixar>>
vars == <<cell, ext, flt, minc, fixar, todo, cur, pc, e, loaded, l, mg, out, skipped, outcome>>

InitInput == /\ cell \in [Eng -> [Pages -> OkCells \cup FailCells]]
             /\ ext \in [Pages -> Exts]
             /\ flt \in Filters
             /\ minc \in MinConfs
             /\ fixar \in FixArs
InitState == /\ todo = {} /\ cur = 0 /\ pc = "list" /\ e = 0 /\ loaded = <<>> /\ l = 0 /\ mg = <<>>
             /\ out = [p \in Pages |-> NoPage] /\ skipped = {} /\ outcome = "running"
Init == InitInput /\ InitState

\* ------------------------------------------------- the input, read by the code --------------------------------------------------
C(en, p) == cell[en][p]
NLn(en, p) == Len(C(en, p).cf)
XC(en, p, k) == IF C(en, p).cf[k] = 0 /\ C(en, p).tn THEN 0 ELSE C(en, p).xc
XRec(en, p, k) == IF XC(en, p, k) = 0 THEN [src |-> "n", eng |-> 0, lvl |-> 0] ELSE [src |-> "x", eng |-> en, lvl |-> XC(en, p, k)]
\* the lines of a page as PageLayout(file=..) + load_logits deliver them
AsLoaded(en, p) == [k \in 1..NLn(en, p) |->
                      [k |-> k, idv |-> C(en, p).idv, tx |-> en, lg |-> en, ch |-> en, co |-> en, rec |-> XRec(en, p, k)]]
SetMin(S) == CHOOSE m \in S : \A x \in S : m <= x
\* zip(*all_lines) stops with the shortest layout
NZip(p, ld) == SetMin({NLn(ld[i], p) : i \in 1..Len(ld)})

\* files_to_process: the .xml / .XML files of the FIRST directory whose stem is in the filter list (if one is given)
Listed == {p \in Pages : ext[p] \in {"xml", "XML"} /\ C(1, p).st # "noxml"}
Selected == {p \in Listed : flt.on => p \in flt.ids}

\* the inner loop of merge_layouts (property C19): running threshold starting at 0.0 (= 2), strict >;
\* result = position in the tuple of the engine copied last, 0 = nothing copied
RECURSIVE ScanFrom(_, _, _, _)
ScanFrom(cfs, i, best, w) == IF i > Len(cfs) THEN w
                             ELSE IF cfs[i] > best THEN ScanFrom(cfs, i + 1, cfs[i], i)
                                  ELSE ScanFrom(cfs, i + 1, best, w)
Winner(cfs) == ScanFrom(cfs, 1, 2, 0)

\* ---------------------------------------------------------- actions -------------------------------------------------------------
List == /\ pc = "list"
        /\ todo' = Selected /\ pc' = "page"
        /\ UNCHANGED <<input, cur, e, loaded, l, mg, out, skipped, outcome>>

NextPage == /\ pc = "page" /\ todo # {}
            /\ \E p \in todo : cur' = p /\ todo' = todo \ {p}
            /\ e' = 1 /\ loaded' = <<>> /\ pc' = "load"
            /\ UNCHANGED <<input, l, mg, out, skipped, outcome>>

Finish == /\ pc = "page" /\ todo = {}
          /\ outcome' = "ok" /\ pc' = "done"
          /\ UNCHANGED <<input, todo, cur, e, loaded, l, mg, out, skipped>>

\* try: PageLayout(file=..); load_logits(..); append  except Exception: message, next engine
Load == /\ pc = "load"
        /\ loaded' = IF C(e, cur).st = "ok" THEN Append(loaded, e) ELSE loaded
        /\ e' = e + 1
        /\ pc' = IF e = NEng THEN "merge" ELSE "load"
        /\ UNCHANGED <<input, todo, cur, l, mg, out, skipped, outcome>>

MergeStart == /\ pc = "merge"
              /\ IF loaded = <<>>
                 THEN IF Leg("L1") THEN /\ outcome' = "IndexError" /\ pc' = "done"          \* (L1) page_layouts[0] of an empty list
                                     /\ UNCHANGED <<mg, l, skipped>>
                      ELSE /\ skipped' = skipped \cup {cur} /\ pc' = "page"
                           /\ UNCHANGED <<mg, l, outcome>>
                 ELSE /\ mg' = AsLoaded(loaded[1], cur) /\ l' = 1 /\ pc' = "mline"
                      /\ UNCHANGED <<skipped, outcome>>
              /\ UNCHANGED <<input, todo, cur, e, loaded, out>>

MergeLine == /\ pc = "mline" /\ l <= NZip(cur, loaded)
             /\ LET first == loaded[1]
                    mism == \E i \in 1..Len(loaded) : C(loaded[i], cur).idv # C(first, cur).idv
                    cfs == [i \in 1..Len(loaded) |-> C(loaded[i], cur).cf[l]]
                    w == Winner(cfs)
                IN  IF mism
                    THEN /\ outcome' = "SystemExit" /\ pc' = "done"                      \* exit(-1): documented
                         /\ UNCHANGED <<mg, l>>
                    ELSE /\ mg' = IF w = 0 THEN mg
                                  ELSE [mg EXCEPT ![l] = [@ EXCEPT !.tx = loaded[w], !.lg = loaded[w], !.ch = loaded[w],
                                                                   !.co = IF Leg("L2") THEN @ ELSE loaded[w],          \* (L2)
                                                                   !.rec = [src |-> "c", eng |-> 0, lvl |-> cfs[w]]]]
                         /\ l' = l + 1
                         /\ UNCHANGED <<pc, outcome>>
             /\ UNCHANGED <<input, todo, cur, e, loaded, out, skipped>>

MergeEnd == /\ pc = "mline" /\ l > NZip(cur, loaded)
            /\ pc' = "filter"
            /\ UNCHANGED <<input, todo, cur, e, loaded, l, mg, out, skipped, outcome>>

\* l.transcription_confidence and l.transcription_confidence > args.min_confidence
Passes(ln) == ln.rec.lvl > minc
Filter == /\ pc = "filter"
          /\ mg' = IF minc > 0 THEN SelectSeq(mg, Passes) ELSE mg
          /\ pc' = "arabic"
          /\ UNCHANGED <<input, todo, cur, e, loaded, l, out, skipped, outcome>>

FixArabic == /\ pc = "arabic"
             /\ IF fixar /\ Leg("L3") /\ mg # <<>>
                THEN outcome' = "NameError" /\ pc' = "done"                              \* (L3)
                ELSE pc' = "wxml" /\ UNCHANGED outcome
             /\ UNCHANGED <<input, todo, cur, e, loaded, l, mg, out, skipped>>

\* merged_layout = input_layouts[0]: page, regions and line geometry are those of the first loaded engine
WriteXml == /\ pc = "wxml"
            /\ out' = [out EXCEPT ![cur] = [xml |-> TRUE, lgt |-> FALSE, geo |-> loaded[1], lines |-> mg]]
            /\ pc' = "wlg"
            /\ UNCHANGED <<input, todo, cur, e, loaded, l, mg, skipped, outcome>>

\* save_logits raises for a line without logits / characters / logit_coords (none in the scope of this model)
WriteLogits == /\ pc = "wlg"
               /\ IF \E i \in 1..Len(mg) : mg[i].lg = 0 \/ mg[i].ch = 0 \/ mg[i].co = 0
                  THEN outcome' = "Exception" /\ pc' = "done" /\ UNCHANGED out
                  ELSE out' = [out EXCEPT ![cur].lgt = TRUE] /\ pc' = "page" /\ UNCHANGED outcome
               /\ UNCHANGED <<input, todo, cur, e, loaded, l, mg, skipped>>

Next == List \/ NextPage \/ Finish \/ Load \/ MergeStart \/ MergeLine \/ MergeEnd \/ Filter \/ FixArabic \/ WriteXml \/ WriteLogits
Spec == Init /\ [][Next]_vars /\ WF_vars(Next)

\* =========================================================== properties ===========================================================
\* the per-line choice is the statement of C19: the operators of EngineMerge.tla, instantiated (its variables are not used here)
EM == INSTANCE EngineMerge WITH NEngines <- NEng, NLines <- 1, Confs <- Confs, Lens <- {1}, Mut <- "none", Chain <- FALSE,
                                conf <- <<>>, len <- <<>>, pass <- 1, l <- 1, e <- 0, best <- 2,
                                text <- <<>>, logits <- <<>>, chars <- <<>>, rec <- <<>>, snap <- <<>>

Loadable(p) == {en \in Eng : C(en, p).st = "ok"}
RECURSIVE SeqOfSet(_)
SeqOfSet(S) == IF S = {} THEN <<>> ELSE <<SetMin(S)>> \o SeqOfSet(S \ {SetMin(S)})
LoadSeq(p) == SeqOfSet(Loadable(p))
FirstOk(p) == SetMin(Loadable(p))
\* the pages that must be written: every page of the first directory that passes the filter list and that some engine can deliver
Expected == {p \in Selected : Loadable(p) # {}}
Written == {p \in Pages : out[p].xml}
Complete == {p \in Pages : out[p].xml /\ out[p].lgt}
\* an id mismatch that merge_layouts meets (zip over at least one line)
Mismatch(p) == /\ Loadable(p) # {} /\ NZip(p, LoadSeq(p)) >= 1
               /\ \E a, b \in Loadable(p) : C(a, p).idv # C(b, p).idv
PosOf(ld, en) == {i \in 1..Len(ld) : ld[i] = en}

TypeOK == /\ pc \in {"list", "page", "load", "merge", "mline", "filter", "arabic", "wxml", "wlg", "done"}
          /\ todo \subseteq Pages /\ cur \in 0..NPages /\ skipped \subseteq Pages
          /\ outcome \in {"running", "ok", "IndexError", "SystemExit", "NameError", "Exception"}
          /\ (pc = "done") <=> (outcome # "running")
          /\ \A i \in 1..Len(loaded) : loaded[i] \in Eng

\* the only exception that may leave main() is the documented exit(-1) on mismatching line ids - and only when there is a mismatch
OnlyDocumentedErrors == /\ outcome \in {"running", "ok", "SystemExit"}
                        /\ outcome = "SystemExit" => Mismatch(cur)

\* which pages are written: nothing but expected pages, ever; all of them when the run ends normally
\* (the .logits of a page is written right after its XML)
PagesWritten == /\ Written \subseteq Expected
                /\ \A p \in Pages : out[p].lgt => out[p].xml
                /\ outcome = "ok" => /\ Complete = Expected /\ Written = Expected
                                     /\ skipped = Selected \ Expected
                /\ \A p \in Written : ~Mismatch(p)
\* a failing page neither stops the run nor loses later pages: unless the documented exit(-1) ended it, a finished run has
\* delivered every expected page
NoPageLost == (pc = "done" /\ outcome # "SystemExit") => Expected \subseteq Complete

\* page, regions and line geometry come from the first engine (in command-line order) that could be loaded
GeometryFirstLoaded == \A p \in Written : out[p].geo = FirstOk(p)

\* transcription, logits, characters, logit_coords and confidence of an output line all come from the SAME engine
ConsistentLine(p, ln) == /\ ln.tx = ln.lg /\ ln.lg = ln.ch /\ ln.ch = ln.co
                         /\ ln.tx \in Loadable(p)
                         /\ ln.rec.src = "c" => ln.rec.lvl = C(ln.tx, p).cf[ln.k]
                         /\ ln.rec.src # "c" => (ln.rec = XRec(ln.tx, p, ln.k) /\ ln.tx = out[p].geo)
Consistent == \A p \in Written : \A i \in 1..Len(out[p].lines) : ConsistentLine(p, out[p].lines[i])
\* ... the same without logit_coords (holds for the code as it is)
ConsistentButCoords == \A p \in Written : \A i \in 1..Len(out[p].lines) :
                          LET ln == out[p].lines[i] IN ConsistentLine(p, [ln EXCEPT !.co = ln.tx])

\* the winner is the engine with the highest mean confidence, the first one on ties (statement of C19, operator AcceptsOn of
\* EngineMerge.tla over the tuple of LOADED engines); a line beyond the shortest layout stays what the first loaded engine had
WinnerBestLine(p, ln) ==
    LET ld == LoadSeq(p) IN
    IF ln.k <= NZip(p, ld)
    THEN EM!AcceptsOn([i \in 1..Len(ld) |-> C(ld[i], p).cf[ln.k]], PosOf(ld, ln.tx), PosOf(ld, ln.lg), PosOf(ld, ln.ch),
                      IF ln.rec.src = "c" THEN ln.rec.lvl ELSE EM!Untouched)
    ELSE ln.tx = ld[1] /\ ln.lg = ld[1] /\ ln.ch = ld[1] /\ ln.rec = XRec(ld[1], p, ln.k)
WinnerBest == \A p \in Written : \A i \in 1..Len(out[p].lines) : WinnerBestLine(p, out[p].lines[i])

\* the confidence filter: the confidence a line ends with is a function of the input; exactly the lines that pass are written,
\* in their order
FinalLvl(p, k) == LET ld == LoadSeq(p)
                      cfs == [i \in 1..Len(ld) |-> C(ld[i], p).cf[k]]
                  IN  IF k <= NZip(p, ld) /\ EM!MaxOf(cfs) > 2 THEN EM!MaxOf(cfs) ELSE XC(ld[1], p, k)
LinesKept == \A p \in Written :
                LET ls == out[p].lines IN
                /\ {ls[i].k : i \in 1..Len(ls)} = {k \in 1..NLn(FirstOk(p), p) : minc > 0 => FinalLvl(p, k) > minc}
                /\ \A i, j \in 1..Len(ls) : i < j => ls[i].k < ls[j].k
                /\ \A i \in 1..Len(ls) : ls[i].rec.lvl = FinalLvl(p, ls[i].k) /\ ls[i].idv = C(FirstOk(p), p).idv

\* the output .logits file loads against the output XML: every line of the XML has logits, characters and logit_coords
LogitsLoadable == \A p \in Complete : \A i \in 1..Len(out[p].lines) :
                     LET ln == out[p].lines[i] IN ln.lg # 0 /\ ln.ch # 0 /\ ln.co # 0

\* action property: a page that is complete is never touched again, and nothing written disappears
WriteOnce == [][\A p \in Pages : /\ (out[p].xml /\ out[p].lgt) => out'[p] = out[p]
                                 /\ out[p].xml => out'[p].xml]_vars
\* the input is only read
InputKept == [][UNCHANGED input]_vars
Terminates == <>(pc = "done")
=============================================================================
